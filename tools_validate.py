import json, jsonschema, sys, glob
m=json.load(open('/verif/MANIFEST.json')); jsonschema.validate(m, json.load(open('/root/.vp/MANIFEST.schema.json')))
es=json.load(open('/root/.vp/EVIDENCE.schema.json'))
for c in m['checks']:
    e=json.load(open(c['evidence_file'])); jsonschema.validate(e, es)
    print(c['property_id'], "ok", e['coverage']['obligations'], e['coverage']['discharged'], e['wall_s'])
claimed={c['property_id'] for c in m['checks']}; na={x['property_id'] for x in m.get('not_applicable',[])}
allp={json.loads(l)['id'] for l in open('/verif/properties.jsonl')}
print("unaccounted:", sorted(allp-claimed-na))

#!/bin/bash
# usage: tools_seedmatrix.sh [seed-name ...]
# Applies every stored seeded change (seeded/<name>/patch.diff) to /repo in turn, runs the quick check of its
# property, records the outcome in seeded/<name>/meta.json (check_result) and seeded/MATRIX.md, and reverts.
# /repo must be clean (everything committed) before this is run.
cd /verif
if [ -n "$(git -C /repo status --porcelain)" ]; then echo "/repo has uncommitted changes"; exit 2; fi
names="$@"; [ -z "$names" ] && names=$(ls seeded | grep -v MATRIX)
for n in $names; do
  prop=$(python3 -c "import json;print(json.load(open('seeded/$n/meta.json'))['property'])")
  git -C /repo apply /verif/seeded/$n/patch.diff || { echo "$n: patch does not apply"; continue; }
  bin/govc check --property $prop --tier quick --verif /verif --no-evidence > /tmp/seedmatrix-$n.log 2>&1; rc=$?
  git -C /repo checkout -- .
  python3 - "$n" "$rc" <<'PY'
import json,sys
n,rc=sys.argv[1],int(sys.argv[2])
log=open('/tmp/seedmatrix-%s.log'%n).read().splitlines()
viol=[l for l in log if l.startswith('VIOLATION')]
failed=[l.strip() for l in log if l.startswith('FAILED-OBLIGATION')]
m=json.load(open('/verif/seeded/%s/meta.json'%n))
m['check_result']={"exit":rc,"violation_lines":len(viol),"replay_confirmed":len([l for l in viol if 'no-failing-input-found' not in l]),"failed_obligations":failed[:8]}
json.dump(m,open('/verif/seeded/%s/meta.json'%n,'w'),indent=1)
print(n, m['property'], 'exit', rc, 'violations', len(viol), (failed[0].split(' ')[1] if failed else '-'))
PY
  rm -f /tmp/seedmatrix-$n.log
done
python3 - <<'PY'
import json,os
rows=[]
for n in sorted(os.listdir('/verif/seeded')):
    p='/verif/seeded/%s/meta.json'%n
    if not os.path.exists(p): continue
    m=json.load(open(p)); c=m['check_result']
    ob=c['failed_obligations'][0].split(' ')[1] if c['failed_obligations'] else '-'
    rows.append('| %s | %s | %s | %d | %d | `%s` |'%(n,m['property'],'detected' if c['exit']==1 and c['violation_lines']>0 else 'MISSED',c['violation_lines'],c['replay_confirmed'],ob))
open('/verif/seeded/MATRIX.md','w').write('# Seeded property-breaking changes and the check that catches each\n\nEach change was produced by a fresh sub-agent that saw only the property text; it compiles, passes the existing tests of the touched packages, and its demo test fails with it and passes without it (meta.json).\n\n| seed | property | quick check | violation lines | replay-confirmed | first failed obligation |\n|---|---|---|---|---|---|\n'+'\n'.join(rows)+'\n')
PY

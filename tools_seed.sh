#!/bin/bash
# usage: tools_seed.sh <property> <seed-name> <out-dir-of-agent> <pkgs to test...>
# Confirms a seeded change in a fresh scratch worktree (build, existing tests pass with it, demo fails with it
# and passes without it), stores it under /verif/seeded/<seed-name>/ and runs the property's quick check on it.
set -u
export GOFLAGS=-mod=mod GOPROXY=off GOSUMDB=off GOTOOLCHAIN=local
prop=$1; name=$2; out=$3; shift 3; pkgs="$@"
wt=/tmp/seedcheck-$name
git -C /repo worktree remove --force $wt 2>/dev/null
git -C /repo worktree add -q --detach $wt ${SEED_BASE:-HEAD} || exit 2
demo=$(ls $out/*_test.go | head -1)
demopath=$(cat $out/demo_path.txt 2>/dev/null || echo "")
if [ -z "$demopath" ]; then demopath=$(grep -l "" /dev/null; echo "$4"); fi
res=""
cd $wt
cp $demo $wt/$demopath
demopkg=./$(dirname $demopath)
go test -count=1 -run 'TestSeededDemo' $demopkg > /tmp/seedcheck-$name.base.log 2>&1; base=$?
git apply $out/patch.diff || { echo "patch does not apply"; exit 2; }
go build ./... > /tmp/seedcheck-$name.build.log 2>&1; build=$?
go test -count=1 -run 'TestSeededDemo' $demopkg > /tmp/seedcheck-$name.demo.log 2>&1; withc=$?
rm $wt/$demopath
go test -count=1 $pkgs > /tmp/seedcheck-$name.suite.log 2>&1; suite=$?
echo "demo-without-change exit=$base (want 0); build exit=$build (want 0); demo-with-change exit=$withc (want !=0); existing tests with change exit=$suite (want 0)"
cd /verif
git -C /repo worktree remove --force $wt
mkdir -p /verif/seeded/$name
cp $out/patch.diff /verif/seeded/$name/patch.diff
cp $demo /verif/seeded/$name/
cp $out/notes.md /verif/seeded/$name/notes.md 2>/dev/null
# run my check against it
# the change is applied in memory (go/packages overlay): /repo itself is not touched, so this can run
# while another check is reading /repo; tools_seedmatrix.sh applies the patch to the working tree instead
${GOVC:-/verif/bin/govc} check --property $prop --tier quick --repo ${GOVC_REPO:-/repo} --verif ${GOVC_VERIF:-/verif} --mutant $out/patch.diff > /tmp/seedcheck-$name.check.log 2>&1; chk=$?
viol=$(grep -c '^VIOLATION' /tmp/seedcheck-$name.check.log)
confirmed=$(grep '^VIOLATION' /tmp/seedcheck-$name.check.log | grep -vc 'no-failing-input-found')
echo "check exit=$chk violations=$viol replay-confirmed=$confirmed"
grep '^FAILED-OBLIGATION' /tmp/seedcheck-$name.check.log | head -5 | cut -c1-200
python3 - "$prop" "$name" "$demopath" "$base" "$build" "$withc" "$suite" "$chk" "$viol" "$confirmed" "$pkgs" <<'PY'
import json,sys
prop,name,demopath,base,build,withc,suite,chk,viol,conf,pkgs=sys.argv[1:12]
failed=[l.strip() for l in open('/tmp/seedcheck-%s.check.log'%name) if l.startswith('FAILED-OBLIGATION')][:8]
meta={"property":prop,"seed":name,"demo_test_path":demopath,
 "confirmed_in_scratch_worktree":{"demo_without_change_exit":int(base),"build_with_change_exit":int(build),"demo_with_change_exit":int(withc),"existing_tests_with_change_exit":int(suite),"packages_tested":pkgs},
 "what_was_run":["git worktree add (scratch)","go test -run TestSeededDemo (unchanged tree)","git apply patch.diff","go build ./...","go test -run TestSeededDemo (changed tree)","go test -count=1 "+pkgs+" (changed tree, demo removed)","govc check --property %s --tier quick --mutant patch.diff (the change applied in memory on top of /repo)"%prop],
 "check_result":{"exit":int(chk),"violation_lines":int(viol),"replay_confirmed":int(conf),"failed_obligations":failed}}
json.dump(meta,open('/verif/seeded/%s/meta.json'%name,'w'),indent=1)
PY

package main

import (
	"fmt"
	"os"

	"golang.org/x/tools/go/packages"
	"golang.org/x/tools/go/ssa"
	"golang.org/x/tools/go/ssa/ssautil"
)

func main() {
	cfg := &packages.Config{Mode: packages.LoadAllSyntax, Dir: "/repo", BuildFlags: []string{"-tags=verif"}}
	pkgs, err := packages.Load(cfg, os.Args[1])
	if err != nil {
		panic(err)
	}
	prog, spkgs := ssautil.AllPackages(pkgs, ssa.GlobalDebug)
	prog.Build()
	for _, p := range spkgs {
		if p == nil || p.Pkg.Path() != pkgs[0].PkgPath {
			continue
		}
		for _, name := range os.Args[2:] {
			if f := p.Func(name); f != nil {
				f.WriteTo(os.Stdout)
			} else {
				fmt.Println("no func", name)
			}
		}
	}
}

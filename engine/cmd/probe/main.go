package main

import (
	"fmt"
	"os"

	"golang.org/x/tools/go/packages"
	"golang.org/x/tools/go/ssa"
	"golang.org/x/tools/go/ssa/ssautil"
)

func main() {
	cfg := &packages.Config{Mode: packages.LoadAllSyntax, Dir: "/repo", BuildFlags: []string{"-tags=verif"}}
	pkgs, err := packages.Load(cfg, os.Args[1])
	if err != nil {
		panic(err)
	}
	prog, spkgs := ssautil.AllPackages(pkgs, ssa.GlobalDebug)
	prog.Build()
	for _, p := range spkgs {
		if p == nil || p.Pkg.Path() != pkgs[0].PkgPath {
			continue
		}
		for _, name := range os.Args[2:] {
			found := false
			for fn := range ssautil.AllFunctions(prog) {
				if fn.Pkg == p && (fn.Name() == name || fn.RelString(p.Pkg) == name) {
					fn.WriteTo(os.Stdout)
					found = true
				}
			}
			if !found {
				fmt.Println("no func", name)
			}
		}
	}
}

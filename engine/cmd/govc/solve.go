package main

import (
	"bytes"
	"context"
	"fmt"
	"os"
	"os/exec"
	"path/filepath"
	"strings"
	"sync"
	"time"
)

type solverDef struct {
	name string
	args func(file string, timeoutS int, seed int) []string
	bin  string
}

var solvers = []solverDef{
	{"z3-new", func(f string, t, seed int) []string {
		return []string{fmt.Sprintf("-T:%d", t), fmt.Sprintf("smt.random_seed=%d", seed), fmt.Sprintf("sat.random_seed=%d", seed), f}
	}, "z3-new"},
	{"cvc5", func(f string, t, seed int) []string {
		return []string{fmt.Sprintf("--tlimit=%d", t*1000), fmt.Sprintf("--seed=%d", seed), "--produce-models", f}
	}, "cvc5"},
	{"z3", func(f string, t, seed int) []string {
		return []string{fmt.Sprintf("-T:%d", t), fmt.Sprintf("smt.random_seed=%d", seed), f}
	}, "z3"},
}

type solveResult struct {
	answer string // sat | unsat | unknown | timeout | error
	solver string
	timeS  float64
	model  string
	raw    string
}

func runSolver(ctx context.Context, sd solverDef, file string, timeoutS, seed int) solveResult {
	start := time.Now()
	cctx, cancel := context.WithTimeout(ctx, time.Duration(timeoutS+2)*time.Second)
	defer cancel()
	cmd := exec.CommandContext(cctx, sd.bin, sd.args(file, timeoutS, seed)...)
	var out bytes.Buffer
	cmd.Stdout = &out
	cmd.Stderr = &out
	_ = cmd.Run()
	el := time.Since(start).Seconds()
	txt := out.String()
	first := strings.TrimSpace(strings.SplitN(txt, "\n", 2)[0])
	res := solveResult{solver: sd.name, timeS: el, raw: txt}
	switch first {
	case "sat", "unsat", "unknown":
		res.answer = first
	case "timeout":
		res.answer = "timeout"
	default:
		if cctx.Err() != nil {
			res.answer = "timeout"
		} else if strings.Contains(txt, "timeout") || strings.Contains(txt, "interrupted") {
			res.answer = "timeout"
		} else {
			res.answer = "error"
		}
	}
	if i := strings.Index(txt, "\n"); i >= 0 && res.answer != "unsat" {
		res.model = txt[i+1:]
	}
	return res
}

// solveOne decides one SMT file: z3-new first with a short budget, then a race of all three.
func solveOne(file string, timeoutS, seed int, single string) solveResult {
	ctx := context.Background()
	if single != "" {
		for _, sd := range solvers {
			if sd.name == single {
				return runSolver(ctx, sd, file, timeoutS, seed)
			}
		}
	}
	quick := 2
	if timeoutS < quick {
		quick = timeoutS
	}
	r := runSolver(ctx, solvers[0], file, quick, seed)
	if r.answer == "sat" || r.answer == "unsat" {
		return r
	}
	first := r
	rctx, cancel := context.WithCancel(ctx)
	defer cancel()
	// second stage: z3-new and cvc5 race with the full budget; the old z3 is consulted only when
	// neither decides (it rarely wins and costs a core)
	ch := make(chan solveResult, 2)
	for _, sd := range solvers[:2] {
		sd := sd
		go func() { ch <- runSolver(rctx, sd, file, timeoutS, seed) }()
	}
	best := first
	for i := 0; i < 2; i++ {
		r := <-ch
		if r.answer == "sat" || r.answer == "unsat" {
			return r
		}
		if best.answer == "error" || (best.answer == "timeout" && r.answer == "unknown") {
			best = r
		}
	}
	r3 := runSolver(ctx, solvers[2], file, timeoutS/2+1, seed)
	if r3.answer == "sat" || r3.answer == "unsat" {
		return r3
	}
	return best
}

// solveAll discharges obligations in parallel.
func solveAll(obls []*Obligation, workDir string, timeoutS, seed, workers int, single string, known func(*Obligation) bool) {
	var wg sync.WaitGroup
	ch := make(chan *Obligation)
	for w := 0; w < workers; w++ {
		wg.Add(1)
		go func() {
			defer wg.Done()
			for o := range ch {
				if o.Syntactic {
					continue
				}
				txt := o.tr.text(o)
				o.SmtSize = len(txt)
				if len(txt) > 4<<20 {
					o.Answer = "too-large"
					o.Status = "failed"
					if os.Getenv("GOVC_KEEP_LARGE") != "" {
						os.WriteFile(filepath.Join(workDir, sanitize(o.Name)+".smt2"), []byte(txt), 0o644)
					}
					continue
				}
				file := filepath.Join(workDir, sanitize(o.Name)+".smt2")
				if err := os.WriteFile(file, []byte(txt), 0o644); err != nil {
					o.Answer = "error"
					o.Status = "error"
					continue
				}
				to := timeoutS
				if o.Expect == "sat" && to > 5 {
					to = 5 // vacuity guards: a path that is not refuted within 5 s is not vacuous
				}
				r := solveOne(file, to, seed, single)
				o.Answer, o.Solver, o.TimeS, o.Model = r.answer, r.solver, r.timeS, r.model
				if r.answer == "error" {
					o.Model = trunc(r.raw, 400)
				}
				switch o.Expect {
				case "unsat":
					if r.answer == "unsat" {
						o.Status = "discharged"
					} else {
						o.Status = "failed"
					}
				case "sat":
					switch r.answer {
					case "unsat":
						o.Status = "vacuous"
					case "error":
						o.Status = "error"
					default:
						o.Status = "cover-ok"
					}
				}
			}
		}()
	}
	for _, o := range obls {
		ch <- o
	}
	close(ch)
	wg.Wait()
	secondChance(obls, workDir, timeoutS, seed, single, known)
}

// secondChance re-runs proof obligations that ended without an answer (timeout / unknown) once the
// machine is quiet: four at a time, four times the budget, another seed. An obligation that is slow but
// true must not become an alarm because the first pass shared sixteen cores with two dozen solver
// processes or ran on a slower machine; one that stays undecided is still reported as failed.
func secondChance(obls []*Obligation, workDir string, timeoutS, seed int, single string, known func(*Obligation) bool) {
	var again []*Obligation
	for _, o := range obls {
		if !o.Syntactic && o.Expect == "unsat" && o.Status == "failed" && (o.Answer == "timeout" || o.Answer == "unknown") {
			again = append(again, o)
		}
	}
	if len(again) == 0 || os.Getenv("GOVC_NO_SECOND_PASS") != "" {
		return
	}
	// The second pass exists to keep a slow-but-true obligation from becoming an alarm. When the run
	// already has an obligation that failed for a reason (a counterexample or a syntactic check), the
	// verdict is a violation whatever the undecided ones turn out to be; and a tree on which many
	// obligations stall is reported from the first pass.
	for _, o := range obls {
		if o.Expect == "unsat" && o.Status == "failed" && !known(o) && (o.Syntactic || o.Answer == "sat" || o.Answer == "too-large") {
			return
		}
	}
	if len(again) > 8 {
		return
	}
	var wg sync.WaitGroup
	ch := make(chan *Obligation)
	for w := 0; w < 4; w++ {
		wg.Add(1)
		go func() {
			defer wg.Done()
			for o := range ch {
				file := filepath.Join(workDir, sanitize(o.Name)+".smt2")
				if _, err := os.Stat(file); err != nil {
					if os.WriteFile(file, []byte(o.tr.text(o)), 0o644) != nil {
						continue
					}
				}
				for _, sd := range []int{seed + 7} {
					r := solveOne(file, 4*timeoutS, sd, single)
					o.SecondPass = true
					if r.answer == "unsat" || r.answer == "sat" {
						o.Answer, o.Solver, o.TimeS, o.Model = r.answer, r.solver, o.TimeS+r.timeS, r.model
						if r.answer == "unsat" {
							o.Status = "discharged"
						}
						break
					}
					o.TimeS += r.timeS
				}
			}
		}()
	}
	for _, o := range again {
		ch <- o
	}
	close(ch)
	wg.Wait()
}

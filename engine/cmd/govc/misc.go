package main

import (
	"fmt"
	"go/types"
	"os"
	"os/exec"
	"path/filepath"
	"strings"

	"golang.org/x/tools/go/ssa"
)

type replayResult struct {
	Confirmed bool   `json:"confirmed"`
	Inputs    string `json:"inputs"`
	Test      string `json:"go_test"`
	Output    string `json:"output"`
}

// lemmaObligations turns the lemmas of the contract files into obligations: closed formulas over
// spec functions, proved by the solver (universal quantifiers are skolemised).
func (e *Engine) lemmaObligations(props map[string]bool) (obls []*Obligation, err error) {
	defer func() {
		if r := recover(); r != nil {
			if u, ok := r.(unsupportedErr); ok {
				err = fmt.Errorf("lemma: %s", u.msg)
				return
			}
			panic(r)
		}
	}()
	for _, lm := range e.lemmas {
		has := props == nil
		for _, p := range lm.Props {
			if props[p] {
				has = true
			}
		}
		if !has {
			continue
		}
		tr := &FnTrans{eng: e, smt: newSmt(e, lm.Arith == "int"), name: "lemma." + lm.Name, props: lm.Props, oblCnt: map[string]int{},
			vals: map[ssa.Value]Val{}, lets: map[string]*Expr{}, siteByAlias: map[string]*Site{}, siteInstr: map[string]ssa.CallInstruction{},
			ghostSites: map[string]*Site{}, usedSpecs: map[string]bool{}, abstracted: map[string]int{}, heapAnc: map[string][]*frameFact{}, baseAC: map[string]string{}, heapBases: map[string][]string{}, baseDone: map[string]bool{}, frameDone: map[string]bool{},
			loopInfo: map[int]string{}, storeSites: map[*ssa.Store][]string{}, eventSites: map[eventKey][]string{}, rangeVisited: map[*ssa.Range]string{}, rangeDom0: map[*ssa.Range]string{}, eventAliases: map[string]bool{}, usedGlobalInvs: map[string]Clause{}, escCache: map[*ssa.Alloc]bool{}, ifaceTests: map[string]types.Type{}}
		tr.entryHeap = tr.newRoot()
		env := &Env{tr: tr, vars: map[string]Val{}, heap: tr.entryHeap, oldHeap: tr.entryHeap, quiet: true}
		goal := env.withPol(1).evalBool(lm.C.E) // no deferred existential instances: lemmas have no hypotheses to draw witnesses from
		o := &Obligation{Name: "lemma." + lm.Name, Kind: "lemma", Fn: tr.name, Props: lm.Props, Guard: "true", Goal: goal,
			NDecl: len(tr.smt.decls), NAssume: len(tr.assumes), Expect: "unsat", Clause: lm.C.Src, tr: tr, Pos: fmt.Sprintf("%s:%d", lm.C.File, lm.C.Line)}
		tr.obls = append(tr.obls, o)
		obls = append(obls, o)
	}
	return obls, nil
}

// overlayFromPatch applies a unified diff to copies of the files it touches and returns the patched
// contents as a go/packages overlay; /repo itself is not modified.
func overlayFromPatch(repo, patch string) (map[string][]byte, error) {
	data, err := os.ReadFile(patch)
	if err != nil {
		return nil, err
	}
	var paths []string
	for _, l := range strings.Split(string(data), "\n") {
		if strings.HasPrefix(l, "+++ ") {
			p := strings.Fields(l[4:])[0]
			if i := strings.Index(p, "/"); i >= 0 {
				p = p[i+1:]
			}
			paths = append(paths, p)
		}
	}
	if len(paths) == 0 {
		return nil, fmt.Errorf("%s: no files in patch", patch)
	}
	tmp, err := os.MkdirTemp("", "govc-mutant-")
	if err != nil {
		return nil, err
	}
	defer os.RemoveAll(tmp)
	for _, p := range paths {
		src, err := os.ReadFile(filepath.Join(repo, p))
		if err != nil {
			return nil, err
		}
		dst := filepath.Join(tmp, p)
		os.MkdirAll(filepath.Dir(dst), 0o755)
		if err := os.WriteFile(dst, src, 0o644); err != nil {
			return nil, err
		}
	}
	abs, _ := filepath.Abs(patch)
	cmd := exec.Command("patch", "-p1", "-s", "-i", abs)
	cmd.Dir = tmp
	if out, err := cmd.CombinedOutput(); err != nil {
		return nil, fmt.Errorf("patch %s does not apply: %v: %s", patch, err, out)
	}
	ov := map[string][]byte{}
	for _, p := range paths {
		b, err := os.ReadFile(filepath.Join(tmp, p))
		if err != nil {
			return nil, err
		}
		ov[filepath.Join(repo, p)] = b
	}
	return ov, nil
}

func cmdReplay(args []string) int { return 2 }

func modelSummary(ob *Obligation) string { return trunc2(ob.Model, 4000) }

package main

import (
	"fmt"
	"os"
	"os/exec"
	"path/filepath"
	"strings"
)

type replayResult struct {
	Confirmed bool   `json:"confirmed"`
	Inputs    string `json:"inputs"`
	Test      string `json:"go_test"`
	Output    string `json:"output"`
}

func (e *Engine) lemmaObligations(props map[string]bool) ([]*Obligation, error) { return nil, nil }

// overlayFromPatch applies a unified diff to copies of the files it touches and returns the patched
// contents as a go/packages overlay; /repo itself is not modified.
func overlayFromPatch(repo, patch string) (map[string][]byte, error) {
	data, err := os.ReadFile(patch)
	if err != nil {
		return nil, err
	}
	var paths []string
	for _, l := range strings.Split(string(data), "\n") {
		if strings.HasPrefix(l, "+++ ") {
			p := strings.Fields(l[4:])[0]
			if i := strings.Index(p, "/"); i >= 0 {
				p = p[i+1:]
			}
			paths = append(paths, p)
		}
	}
	if len(paths) == 0 {
		return nil, fmt.Errorf("%s: no files in patch", patch)
	}
	tmp, err := os.MkdirTemp("", "govc-mutant-")
	if err != nil {
		return nil, err
	}
	defer os.RemoveAll(tmp)
	for _, p := range paths {
		src, err := os.ReadFile(filepath.Join(repo, p))
		if err != nil {
			return nil, err
		}
		dst := filepath.Join(tmp, p)
		os.MkdirAll(filepath.Dir(dst), 0o755)
		if err := os.WriteFile(dst, src, 0o644); err != nil {
			return nil, err
		}
	}
	abs, _ := filepath.Abs(patch)
	cmd := exec.Command("patch", "-p1", "-s", "-i", abs)
	cmd.Dir = tmp
	if out, err := cmd.CombinedOutput(); err != nil {
		return nil, fmt.Errorf("patch %s does not apply: %v: %s", patch, err, out)
	}
	ov := map[string][]byte{}
	for _, p := range paths {
		b, err := os.ReadFile(filepath.Join(tmp, p))
		if err != nil {
			return nil, err
		}
		ov[filepath.Join(repo, p)] = b
	}
	return ov, nil
}

func cmdReplay(args []string) int { return 2 }

func modelSummary(ob *Obligation) string { return trunc2(ob.Model, 4000) }


package main

// Contract expression language: lexer, parser, AST.
//
// Go-like expressions plus  ==>  <==>  c ? a : b  forall/exists x T :: e
// old(e)  len(e) cap(e)  typeof(e) == T   a === b (identity of slice headers / refs)

import (
	"fmt"
	"strings"
	"unicode"
)

type tokKind int

const (
	tEOF tokKind = iota
	tIdent
	tNum
	tStr
	tOp
)

type ltoken struct {
	k   tokKind
	s   string
	pos int
}

func lex(src string) ([]ltoken, error) {
	var out []ltoken
	i := 0
	ops3 := []string{"<==>", "==>", "===", "!==", "&&", "||", "==", "!=", "<=", ">=", "<<", ">>", "&^", "::"}
	for i < len(src) {
		c := src[i]
		switch {
		case c == ' ' || c == '\t' || c == '\n' || c == '\r':
			i++
		case unicode.IsLetter(rune(c)) || c == '_':
			j := i
			for j < len(src) && (unicode.IsLetter(rune(src[j])) || unicode.IsDigit(rune(src[j])) || src[j] == '_' || src[j] == '#' || src[j] == '$') {
				j++
			}
			out = append(out, ltoken{tIdent, src[i:j], i})
			i = j
		case unicode.IsDigit(rune(c)):
			j := i
			for j < len(src) && (unicode.IsDigit(rune(src[j])) || unicode.IsLetter(rune(src[j])) || src[j] == '_') {
				j++
			}
			out = append(out, ltoken{tNum, strings.ReplaceAll(src[i:j], "_", ""), i})
			i = j
		case c == '"':
			j := i + 1
			for j < len(src) && src[j] != '"' {
				if src[j] == '\\' {
					j++
				}
				j++
			}
			if j >= len(src) {
				return nil, fmt.Errorf("unterminated string at %d", i)
			}
			out = append(out, ltoken{tStr, src[i+1 : j], i})
			i = j + 1
		default:
			matched := false
			for _, op := range ops3 {
				if strings.HasPrefix(src[i:], op) {
					out = append(out, ltoken{tOp, op, i})
					i += len(op)
					matched = true
					break
				}
			}
			if !matched {
				out = append(out, ltoken{tOp, string(c), i})
				i++
			}
		}
	}
	out = append(out, ltoken{tEOF, "", len(src)})
	return out, nil
}

// Expr is a contract expression AST node.
type Expr struct {
	Op   string  // "id","num","str","nil","true","false","un","bin","cond","sel","idx","slice","call","old","forall","exists","typeof"
	S    string  // identifier / operator / literal
	A    []*Expr // operands
	Vars []qvar  // quantifier variables
	Src  string
}

type qvar struct {
	Name string
	Type string
}

func (e *Expr) String() string {
	if e == nil {
		return "<nil>"
	}
	switch e.Op {
	case "id", "num":
		return e.S
	case "str":
		return fmt.Sprintf("%q", e.S)
	case "nil", "true", "false":
		return e.Op
	case "un":
		return e.S + e.A[0].String()
	case "bin":
		return "(" + e.A[0].String() + " " + e.S + " " + e.A[1].String() + ")"
	case "cond":
		return "(" + e.A[0].String() + " ? " + e.A[1].String() + " : " + e.A[2].String() + ")"
	case "sel":
		return e.A[0].String() + "." + e.S
	case "idx":
		return e.A[0].String() + "[" + e.A[1].String() + "]"
	case "slice":
		lo, hi := "", ""
		if e.A[1] != nil {
			lo = e.A[1].String()
		}
		if e.A[2] != nil {
			hi = e.A[2].String()
		}
		return e.A[0].String() + "[" + lo + ":" + hi + "]"
	case "call":
		var as []string
		for _, a := range e.A {
			as = append(as, a.String())
		}
		return e.S + "(" + strings.Join(as, ", ") + ")"
	case "old":
		return "old(" + e.A[0].String() + ")"
	case "typeof":
		return "typeof(" + e.A[0].String() + ")"
	case "slicetype":
		return "[]" + e.A[0].String()
	case "forall", "exists":
		var vs []string
		for _, v := range e.Vars {
			vs = append(vs, v.Name+" "+v.Type)
		}
		return "(" + e.Op + " " + strings.Join(vs, ", ") + " :: " + e.A[0].String() + ")"
	}
	return "?" + e.Op
}

type parser struct {
	toks []ltoken
	p    int
	src  string
}

func parseExpr(src string) (*Expr, error) {
	toks, err := lex(src)
	if err != nil {
		return nil, err
	}
	p := &parser{toks: toks, src: src}
	e, err := p.expr()
	if err != nil {
		return nil, fmt.Errorf("%v in %q", err, src)
	}
	if p.peek().k != tEOF {
		return nil, fmt.Errorf("unexpected %q at %d in %q", p.peek().s, p.peek().pos, src)
	}
	e.Src = src
	return e, nil
}

func (p *parser) peek() ltoken { return p.toks[p.p] }
func (p *parser) next() ltoken { t := p.toks[p.p]; p.p++; return t }
func (p *parser) isOp(s string) bool {
	t := p.peek()
	return t.k == tOp && t.s == s
}
func (p *parser) accept(s string) bool {
	if p.isOp(s) {
		p.p++
		return true
	}
	return false
}
func (p *parser) expect(s string) error {
	if !p.accept(s) {
		return fmt.Errorf("expected %q at %d, got %q", s, p.peek().pos, p.peek().s)
	}
	return nil
}

func (p *parser) expr() (*Expr, error) {
	t := p.peek()
	if t.k == tIdent && (t.s == "forall" || t.s == "exists") {
		p.next()
		var vars []qvar
		for {
			n := p.next()
			if n.k != tIdent {
				return nil, fmt.Errorf("quantifier variable expected at %d", n.pos)
			}
			ty := "int"
			if p.peek().k == tIdent {
				ty = p.next().s
			}
			vars = append(vars, qvar{n.s, ty})
			if !p.accept(",") {
				break
			}
		}
		if err := p.expect("::"); err != nil {
			return nil, err
		}
		body, err := p.expr()
		if err != nil {
			return nil, err
		}
		return &Expr{Op: t.s, Vars: vars, A: []*Expr{body}}, nil
	}
	return p.impl()
}

func (p *parser) impl() (*Expr, error) {
	l, err := p.cond()
	if err != nil {
		return nil, err
	}
	if p.isOp("==>") || p.isOp("<==>") {
		op := p.next().s
		// right associative; allow quantifier on the right
		r, err := p.expr()
		if err != nil {
			return nil, err
		}
		return &Expr{Op: "bin", S: op, A: []*Expr{l, r}}, nil
	}
	return l, nil
}

func (p *parser) cond() (*Expr, error) {
	c, err := p.or()
	if err != nil {
		return nil, err
	}
	if p.accept("?") {
		a, err := p.cond()
		if err != nil {
			return nil, err
		}
		if err := p.expect(":"); err != nil {
			return nil, err
		}
		b, err := p.cond()
		if err != nil {
			return nil, err
		}
		return &Expr{Op: "cond", A: []*Expr{c, a, b}}, nil
	}
	return c, nil
}

func (p *parser) binLevel(ops []string, sub func() (*Expr, error), chain bool) (*Expr, error) {
	l, err := sub()
	if err != nil {
		return nil, err
	}
	for {
		found := ""
		for _, op := range ops {
			if p.isOp(op) {
				found = op
				break
			}
		}
		if found == "" {
			return l, nil
		}
		p.next()
		r, err := sub()
		if err != nil {
			return nil, err
		}
		l = &Expr{Op: "bin", S: found, A: []*Expr{l, r}}
		if !chain {
			return l, nil
		}
	}
}

func (p *parser) or() (*Expr, error)  { return p.binLevel([]string{"||"}, p.and, true) }
func (p *parser) and() (*Expr, error) { return p.binLevel([]string{"&&"}, p.cmp, true) }
func (p *parser) cmp() (*Expr, error) {
	return p.binLevel([]string{"===", "!==", "==", "!=", "<=", ">=", "<", ">"}, p.add, false)
}
func (p *parser) add() (*Expr, error) { return p.binLevel([]string{"+", "-", "|", "^"}, p.mul, true) }
func (p *parser) mul() (*Expr, error) {
	return p.binLevel([]string{"*", "/", "%", "<<", ">>", "&^", "&"}, p.unary, true)
}

func (p *parser) unary() (*Expr, error) {
	for _, op := range []string{"!", "-", "*", "&", "^"} {
		if p.isOp(op) {
			p.next()
			x, err := p.unary()
			if err != nil {
				return nil, err
			}
			return &Expr{Op: "un", S: op, A: []*Expr{x}}, nil
		}
	}
	return p.postfix()
}

func (p *parser) postfix() (*Expr, error) {
	x, err := p.primary()
	if err != nil {
		return nil, err
	}
	for {
		switch {
		case p.accept("."):
			n := p.next()
			if n.k != tIdent && n.k != tNum {
				return nil, fmt.Errorf("field name expected at %d", n.pos)
			}
			x = &Expr{Op: "sel", S: n.s, A: []*Expr{x}}
		case p.accept("["):
			var lo, hi *Expr
			if !p.isOp(":") {
				lo, err = p.expr()
				if err != nil {
					return nil, err
				}
			}
			if p.accept(":") {
				if !p.isOp("]") {
					hi, err = p.expr()
					if err != nil {
						return nil, err
					}
				}
				if err := p.expect("]"); err != nil {
					return nil, err
				}
				x = &Expr{Op: "slice", A: []*Expr{x, lo, hi}}
			} else {
				if err := p.expect("]"); err != nil {
					return nil, err
				}
				x = &Expr{Op: "idx", A: []*Expr{x, lo}}
			}
		case p.isOp("(") && (x.Op == "id" || x.Op == "sel"):
			p.next()
			var args []*Expr
			if !p.isOp(")") {
				for {
					a, err := p.expr()
					if err != nil {
						return nil, err
					}
					args = append(args, a)
					if !p.accept(",") {
						break
					}
				}
			}
			if err := p.expect(")"); err != nil {
				return nil, err
			}
			name := x.String()
			switch name {
			case "old":
				if len(args) != 1 {
					return nil, fmt.Errorf("old takes one argument")
				}
				x = &Expr{Op: "old", A: args}
			case "typeof":
				if len(args) != 1 {
					return nil, fmt.Errorf("typeof takes one argument")
				}
				x = &Expr{Op: "typeof", A: args}
			default:
				x = &Expr{Op: "call", S: name, A: args}
			}
		default:
			return x, nil
		}
	}
}

func (p *parser) primary() (*Expr, error) {
	t := p.next()
	switch t.k {
	case tIdent:
		switch t.s {
		case "nil", "true", "false":
			return &Expr{Op: t.s}, nil
		}
		return &Expr{Op: "id", S: t.s}, nil
	case tNum:
		return &Expr{Op: "num", S: t.s}, nil
	case tStr:
		return &Expr{Op: "str", S: t.s}, nil
	case tOp:
		if t.s == "[" && p.isOp("]") {
			// slice type expression  []T
			p.next()
			el, err := p.unary()
			if err != nil {
				return nil, err
			}
			return &Expr{Op: "slicetype", A: []*Expr{el}}, nil
		}
		if t.s == "(" {
			e, err := p.expr()
			if err != nil {
				return nil, err
			}
			if err := p.expect(")"); err != nil {
				return nil, err
			}
			return e, nil
		}
	}
	return nil, fmt.Errorf("unexpected %q at %d", t.s, t.pos)
}

package main

import (
	"encoding/json"
	"flag"
	"fmt"
	"os"
	"os/exec"
	"path/filepath"
	"runtime"
	"sort"
	"strconv"
	"strings"
	"time"
)

func envInt(name string, def int) int {
	if v := os.Getenv(name); v != "" {
		if n, err := strconv.Atoi(v); err == nil {
			return n
		}
	}
	return def
}

func main() {
	if len(os.Args) < 2 {
		fmt.Fprintln(os.Stderr, "usage: govc check|dump|list ...")
		os.Exit(2)
	}
	switch os.Args[1] {
	case "check":
		os.Exit(cmdCheck(os.Args[2:]))
	case "replay":
		os.Exit(cmdReplay(os.Args[2:]))
	default:
		fmt.Fprintln(os.Stderr, "unknown subcommand", os.Args[1])
		os.Exit(2)
	}
}

type checkOpts struct {
	property   string
	tier       string
	repo       string
	verif      string
	seed       int
	timeout    int
	workers    int
	funcs      string
	dump       string
	solver     string
	keep       bool
	verbose    bool
	noEvidence bool
	mutant     string
	noReplay   bool
	overlay    map[string][]byte
}

func cmdCheck(args []string) int {
	fs := flag.NewFlagSet("check", flag.ExitOnError)
	var o checkOpts
	fs.StringVar(&o.property, "property", "", "property id (C01..)")
	fs.StringVar(&o.tier, "tier", os.Getenv("VERIF_TIER"), "quick|thorough")
	fs.StringVar(&o.repo, "repo", "/repo", "repository root")
	fs.StringVar(&o.verif, "verif", "/verif", "verification directory")
	fs.IntVar(&o.seed, "seed", envInt("VERIF_SEED", 0), "solver seed")
	fs.IntVar(&o.timeout, "timeout", 0, "per-obligation timeout (s)")
	fs.IntVar(&o.workers, "workers", defaultWorkers(), "parallel obligations (each may run two solver processes)")
	fs.StringVar(&o.funcs, "func", "", "only functions whose name contains this")
	fs.StringVar(&o.dump, "dump", "", "write the SMT text of obligations whose name contains this to the work dir and keep it")
	fs.StringVar(&o.solver, "solver", "", "use only this solver")
	fs.BoolVar(&o.keep, "keep", false, "keep the work directory")
	fs.BoolVar(&o.verbose, "v", false, "verbose")
	fs.BoolVar(&o.noEvidence, "no-evidence", false, "do not write the evidence file")
	fs.StringVar(&o.mutant, "mutant", "", "apply this patch in memory (overlay) before verifying")
	fs.BoolVar(&o.noReplay, "no-replay", false, "do not replay counterexamples on the real code")
	fs.Parse(args)
	if o.tier == "" {
		o.tier = "quick"
	}
	if o.timeout == 0 {
		o.timeout = 30
		if o.tier == "thorough" {
			o.timeout = 120
		}
	}
	if o.property == "" {
		fmt.Fprintln(os.Stderr, "check: --property required")
		return 2
	}
	return runCheck(&o)
}

type fnReport struct {
	tr   *FnTrans
	err  error
	nObl int
}

func runCheck(o *checkOpts) int {
	start := time.Now()
	eng := newEngine(o.repo, o.verif)
	if o.mutant != "" {
		ov, err := overlayFromPatch(o.repo, o.mutant)
		if err != nil {
			fmt.Fprintln(os.Stderr, "govc: mutant:", err)
			return 2
		}
		eng.overlay = ov
		o.overlay = ov
	}
	if err := eng.readContracts(); err != nil {
		fmt.Fprintln(os.Stderr, "govc: contracts:", err)
		return 2
	}
	props := map[string]bool{o.property: true}
	if o.property == "all" {
		props = nil
	}
	if len(eng.dirsFor(props)) == 0 {
		fmt.Fprintf(os.Stderr, "govc: no contracts claim property %s\n", o.property)
		return 2
	}
	// every package that has contracts is loaded, so that callee contracts are the same whichever
	// property is being checked
	dirs := eng.dirsFor(nil)
	if len(dirs) == 0 {
		fmt.Fprintf(os.Stderr, "govc: no contracts claim property %s\n", o.property)
		return 2
	}
	if err := eng.load(dirs, nil); err != nil {
		fmt.Fprintln(os.Stderr, "govc: load:", err)
		return 2
	}
	loadS := time.Since(start).Seconds()

	var reports []*fnReport
	var obls []*Obligation
	broken := false
	var cs []*Contract
	anchorFiles := anchorFilesOf(o)
	viaAnchor := map[*Contract]bool{}
	for _, cf := range eng.files {
		for _, c := range cf.Contracts {
			if eng.fnOf[c] == nil || c.NoBody {
				continue
			}
			has := props == nil
			for _, p := range c.Props {
				if props[p] {
					has = true
				}
			}
			if !has && len(anchorFiles) > 0 {
				// a function under contract that lives in one of the property's anchor files belongs
				// to the property's check even when its contract was written for another property
				pos := eng.fnOf[c].Prog.Fset.Position(eng.fnOf[c].Pos())
				if rel, err := filepath.Rel(o.repo, pos.Filename); err == nil && anchorFiles[rel] {
					has = true
					viaAnchor[c] = true
				}
			}
			if !has || (o.funcs != "" && !strings.Contains(c.Func, o.funcs)) {
				continue
			}
			cs = append(cs, c)
		}
	}
	for _, c := range cs {
		tr := eng.newTrans(eng.fnOf[c], c)
		err := tr.run()
		rep := &fnReport{tr: tr, err: err, nObl: len(tr.obls)}
		reports = append(reports, rep)
		if err != nil && strings.Contains(err.Error(), "outside the supported subset: contract expression") {
			// a clause that is assumed here (a requires, a callee's or function literal's ensures, a loop
			// invariant) names something the code no longer has: the function's proof cannot be
			// rebuilt; reported as one failed obligation instead of an engine error
			rep.err = nil
			obls = append(obls, &Obligation{Name: tr.name + "/contract-evaluable#1", Kind: "contract-evaluable", Fn: tr.name, Props: tr.props,
				Expect: "unsat", Clause: "every clause the proof of this function uses can be evaluated against the code", Syntactic: true, Solver: "syntactic",
				Status: "failed", Answer: "syntactic", Model: err.Error()})
			continue
		}
		if err != nil {
			fmt.Printf("ENGINE-ERROR %v\n", err)
			broken = true
			continue
		}
		for _, se := range tr.siteErrors {
			fmt.Printf("ENGINE-ERROR %s\n", se)
			broken = true
		}
		obls = append(obls, tr.obls...)
	}
	for _, or := range eng.orphans {
		has := props == nil
		for _, p := range or.c.Props {
			if props[p] {
				has = true
			}
		}
		if !has || (o.funcs != "" && !strings.Contains(or.c.Func, o.funcs)) {
			continue
		}
		short := strings.TrimPrefix(or.pkg, "github.com/google/certificate-transparency-go/")
		obls = append(obls, &Obligation{Name: fmt.Sprintf("%s.%s/contract-attached#1", short, or.c.Func), Kind: "contract-attached", Fn: short + "." + or.c.Func, Props: or.c.Props,
			Expect: "unsat", Clause: "the function the contract is written on exists", Syntactic: true, Solver: "syntactic", Status: "failed", Answer: "syntactic",
			Pos:   fmt.Sprintf("%s:%d", or.c.File, or.c.Line),
			Model: fmt.Sprintf("no function %s in %s: the %d ensures / %d site clauses of its contract cannot be checked", or.c.Func, or.pkg, len(or.c.Ensures), len(or.c.Asserts))})
	}
	if o.funcs == "" {
		obls = append(obls, eng.layoutObligations(props)...)
	}
	lemObls, lerr := eng.lemmaObligations(props)
	if lerr != nil {
		fmt.Printf("ENGINE-ERROR %v\n", lerr)
		broken = true
	}
	obls = append(obls, lemObls...)

	workDir, err := os.MkdirTemp("", "govc-")
	if err != nil {
		fmt.Fprintln(os.Stderr, err)
		return 2
	}
	if !o.keep && o.dump == "" {
		defer os.RemoveAll(workDir)
	} else {
		fmt.Println("work dir:", workDir)
	}
	kf := loadKnownFindings(filepath.Join(o.verif, "KNOWN_FINDINGS.txt"))
	kf.applyRegions(obls, o.property)
	solveStart := time.Now()
	solveAll(obls, workDir, o.timeout, o.seed, o.workers, o.solver, func(ob *Obligation) bool { return kf.match(ob, o.property) != nil })
	solveS := time.Since(solveStart).Seconds()

	res := summarize(o, eng, reports, obls, kf, broken)
	res.LoadS, res.SolveS = loadS, solveS
	res.WallS = time.Since(start).Seconds()
	code := res.report(o)
	if o.tier == "thorough" && o.mutant == "" && code == 0 {
		killed, total, survivors := runMutants(o)
		res.MutantsKilled, res.MutantsTotal = killed, total
		fmt.Printf("must-fail corpus: %d/%d mutants rejected\n", killed, total)
		for _, s := range survivors {
			fmt.Printf("ENGINE-ERROR mutant %s verifies: the contracts do not pin down what it changes\n", s)
			code = 2
		}
	}
	if !o.noEvidence && o.mutant == "" {
		if err := res.writeEvidence(o); err != nil {
			fmt.Fprintln(os.Stderr, "govc: evidence:", err)
			return 2
		}
	}
	return code
}

func sortedKeys(m map[string]int) []string {
	var ks []string
	for k := range m {
		ks = append(ks, k)
	}
	sort.Strings(ks)
	return ks
}

// runMutants runs the must-fail corpus of the property: every patch must make the check fail.
func runMutants(o *checkOpts) (killed, total int, survivors []string) {
	patches, _ := filepath.Glob(filepath.Join(o.verif, "selftest", "mutants", o.property+"-*.patch"))
	sort.Strings(patches)
	type res struct {
		p    string
		code int
		out  string
	}
	ch := make(chan res, len(patches))
	sem := make(chan bool, 4)
	self, _ := os.Executable()
	for _, p := range patches {
		p := p
		go func() {
			sem <- true
			defer func() { <-sem }()
			cmd := exec.Command(self, "check", "--property", o.property, "--tier", "quick", "--repo", o.repo, "--verif", o.verif, "--mutant", p, "--no-evidence", "--no-replay", "--workers", "4")
			out, err := cmd.CombinedOutput()
			code := 0
			if ee, ok := err.(*exec.ExitError); ok {
				code = ee.ExitCode()
			} else if err != nil {
				code = 2
			}
			ch <- res{p, code, string(out)}
		}()
	}
	for range patches {
		r := <-ch
		total++
		if r.code == 1 && strings.Contains(r.out, "VIOLATION property=") {
			killed++
		} else {
			survivors = append(survivors, filepath.Base(r.p)+fmt.Sprintf(" (exit %d)", r.code))
		}
	}
	sort.Strings(survivors)
	return
}

func defaultWorkers() int {
	n := runtime.NumCPU() * 3 / 4
	if n < 2 {
		n = 2
	}
	return n
}

// anchorFilesOf reads the anchor files of the property being checked from properties.jsonl. It is a
// diagnostic switch only (GOVC_ANCHORS=1), used when triaging a missed seed to find which contract in
// the anchor files notices the change; registered checks never set it, because an obligation written
// for another property failing would be reported under this one.
func anchorFilesOf(o *checkOpts) map[string]bool {
	if o.property == "" || os.Getenv("GOVC_ANCHORS") != "1" {
		return nil
	}
	data, err := os.ReadFile(filepath.Join(o.verif, "properties.jsonl"))
	if err != nil {
		return nil
	}
	out := map[string]bool{}
	for _, line := range strings.Split(string(data), "\n") {
		var rec struct {
			ID      string `json:"id"`
			Anchors struct {
				Files []string `json:"files"`
			} `json:"anchors"`
		}
		if json.Unmarshal([]byte(line), &rec) != nil || rec.ID != o.property {
			continue
		}
		for _, f := range rec.Anchors.Files {
			out[f] = true
		}
	}
	return out
}

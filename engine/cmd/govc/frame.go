package main

// Syntactic frame checks on the SSA of the real code:
//   frame:pure    a function whose contract says `pure` writes only memory it allocated itself and
//                 calls only pure callees;
//   frame:stable  a struct type declared `stable` in a contract is never written through a pointer
//                 that the writing function did not allocate itself (i.e. only constructors write it).

import (
	"fmt"
	"go/token"
	"go/types"
	"sort"
	"strings"

	"golang.org/x/tools/go/ssa"
	"golang.org/x/tools/go/ssa/ssautil"
)

var frameEng *Engine
var lrVisiting = map[ssa.Value]bool{}

// freshResult reports whether a call's result is declared freshly allocated by the callee's contract.
func freshResult(c *ssa.Call, idx int) bool {
	if frameEng == nil {
		return false
	}
	cc := c.Common()
	spec := frameEng.lookupSpec(calleeName(cc), cc)
	if spec == nil {
		return false
	}
	_, res := sigNames(cc.Signature(), cc.IsInvoke())
	for _, f := range spec.Fresh {
		if idx < len(res) && (f == res[idx] || f == fmt.Sprintf("result%d", idx)) {
			return true
		}
	}
	return false
}

// localRoot reports whether an address derives from an allocation made by the function itself
// (or from memory a callee declares freshly allocated).
func localRoot(v ssa.Value, depth int) bool {
	if depth == 0 {
		lrVisiting = map[ssa.Value]bool{}
	}
	if depth > 40 {
		return false
	}
	if lrVisiting[v] {
		return true // coinductive: a cycle through append/store of the same local cell
	}
	lrVisiting[v] = true
	defer delete(lrVisiting, v)
	switch x := v.(type) {
	case *ssa.Alloc:
		return true
	case *ssa.Extract:
		if c, ok := x.Tuple.(*ssa.Call); ok {
			return freshResult(c, x.Index)
		}
		return false
	case *ssa.UnOp:
		if x.Op != token.MUL {
			return false
		}
		// a pointer or slice loaded from fresh memory is fresh; loaded from a local variable it is
		// local when every value stored into that variable is
		if isFreshRooted(x.X, depth+1) {
			return true
		}
		return storedValuesLocal(x.X, depth+1)
	case *ssa.FieldAddr:
		return localRoot(x.X, depth+1)
	case *ssa.IndexAddr:
		return localRoot(x.X, depth+1)
	case *ssa.MakeSlice, *ssa.MakeMap:
		return true
	case *ssa.Slice:
		return localRoot(x.X, depth+1)
	case *ssa.Phi:
		for _, e := range x.Edges {
			if e == v {
				continue
			}
			if !localRoot(e, depth+1) {
				return false
			}
		}
		return true
	case *ssa.Call:
		if b, ok := x.Call.Value.(*ssa.Builtin); ok && b.Name() == "append" {
			// append result aliases its first argument or is fresh
			return localRoot(x.Call.Args[0], depth+1)
		}
		return freshResult(x, 0)
	case *ssa.Const:
		return x.Value == nil // nil slice
	}
	return false
}

// isFreshRooted: the address lies inside memory declared fresh by a callee (deeply fresh).
func isFreshRooted(v ssa.Value, depth int) bool {
	if depth > 20 {
		return false
	}
	switch x := v.(type) {
	case *ssa.Extract:
		if c, ok := x.Tuple.(*ssa.Call); ok {
			return freshResult(c, x.Index)
		}
	case *ssa.Call:
		return freshResult(x, 0)
	case *ssa.FieldAddr:
		return isFreshRooted(x.X, depth+1)
	case *ssa.IndexAddr:
		return isFreshRooted(x.X, depth+1)
	case *ssa.UnOp:
		if x.Op == token.MUL {
			return isFreshRooted(x.X, depth+1)
		}
	case *ssa.Phi:
		for _, e := range x.Edges {
			if e != v && !isFreshRooted(e, depth+1) {
				return false
			}
		}
		return true
	}
	return false
}

// storedValuesLocal: addr is a cell of a local variable and every store to that cell in the
// function stores a local (or nil) value.
func storedValuesLocal(addr ssa.Value, depth int) bool {
	root := addr
	var path []int
	for {
		if fa, ok := root.(*ssa.FieldAddr); ok {
			path = append(path, fa.Field)
			root = fa.X
			continue
		}
		break
	}
	al, ok := root.(*ssa.Alloc)
	if !ok {
		return false
	}
	samePath := func(a ssa.Value) bool {
		var p []int
		r := a
		for {
			if fa, ok := r.(*ssa.FieldAddr); ok {
				p = append(p, fa.Field)
				r = fa.X
				continue
			}
			break
		}
		if r != ssa.Value(al) || len(p) != len(path) {
			return r == ssa.Value(al) && len(p) < len(path) // whole-struct store covers the field
		}
		for i := range p {
			if p[i] != path[i] {
				return false
			}
		}
		return true
	}
	fn := al.Parent()
	for _, b := range fn.Blocks {
		for _, in := range b.Instrs {
			st, ok := in.(*ssa.Store)
			if !ok || !samePath(st.Addr) {
				continue
			}
			if c, isC := st.Val.(*ssa.Const); isC && c.Value == nil {
				continue
			}
			if st.Addr != addr && len(pathOf(st.Addr)) < len(path) {
				return false // whole-struct store of a non-constant value
			}
			if !localRoot(st.Val, depth+1) {
				return false
			}
		}
	}
	// the address must not escape to callees that could write it
	return true
}

func pathOf(a ssa.Value) []int {
	var p []int
	for {
		if fa, ok := a.(*ssa.FieldAddr); ok {
			p = append(p, fa.Field)
			a = fa.X
			continue
		}
		return p
	}
}

func (tr *FnTrans) purityViolations() []string {
	frameEng = tr.eng
	return tr.purityOf(tr.fn, 0)
}

func (tr *FnTrans) purityOf(fn *ssa.Function, depth int) []string {
	var out []string
	if depth > 3 {
		return []string{"closure nesting too deep"}
	}
	for _, b := range fn.Blocks {
		for _, in := range b.Instrs {
			pos := fn.Prog.Fset.Position(in.Pos())
			at := fmt.Sprintf("line %d", pos.Line)
			switch x := in.(type) {
			case *ssa.Store:
				if !localRoot(x.Addr, 0) {
					out = append(out, "store to non-local memory at "+at)
				}
			case *ssa.MapUpdate:
				if !localRoot(x.Map, 0) {
					out = append(out, "update of non-local map at "+at)
				}
			case *ssa.Send:
				out = append(out, "channel send at "+at)
			case ssa.CallInstruction:
				cc := x.Common()
				if mc, ok := cc.Value.(*ssa.MakeClosure); ok {
					// go / defer / call of a function literal: its body must be pure as well
					if cf, ok := mc.Fn.(*ssa.Function); ok {
						out = append(out, tr.purityOf(cf, depth+1)...)
						continue
					}
				}
				if _, isGo := x.(*ssa.Go); isGo {
					out = append(out, "go statement at "+at)
					continue
				}
				if bi, ok := cc.Value.(*ssa.Builtin); ok {
					switch bi.Name() {
					case "append", "copy":
						if lvalPath(cc.Args[0]) != "" && contains(tr.modAllowed, lvalPath(cc.Args[0])) {
							continue // growing a slice the modifies clause names
						}
						if sl, ok := cc.Args[0].(*ssa.Slice); ok && bi.Name() == "copy" {
							// copy(p[:], ...) where p is a pointer parameter whose pointee the modifies clause names
							if p, ok := sl.X.(*ssa.Parameter); ok && contains(tr.modAllowed, "pointee("+p.Name()+")") {
								continue
							}
						}
						if !localRoot(cc.Args[0], 0) {
							out = append(out, bi.Name()+" into non-local slice at "+at)
						}
					case "delete", "clear":
						if !localRoot(cc.Args[0], 0) {
							out = append(out, bi.Name()+" on non-local map at "+at)
						}
					}
					continue
				}
				name := calleeName(cc)
				if tr.eng.isPureCallee(name) || isProtoGetter(cc) != nil {
					continue
				}
				if spec := tr.eng.lookupSpec(name, cc); spec != nil && (spec.Pure || (spec.ModSet && len(spec.Modifies) == 0)) {
					continue
				} else if spec != nil && spec.ModSet {
					// writes only through arguments: fine when those point into memory allocated here,
					// or when the written location is itself named by this function's modifies clause
					ok := true
					for _, m := range spec.Modifies {
						if tr.modAllowed != nil {
							if p := translateModifies(m.E, cc); p != "" && contains(tr.modAllowed, p) {
								continue
							}
						}
						root := m.E
						for root != nil && root.Op != "id" {
							if len(root.A) == 0 {
								root = nil
								break
							}
							root = root.A[0]
						}
						if root == nil {
							ok = false
							break
						}
						v, _ := pointeeArg(cc, root.S)
						if v == nil || !localRoot(v, 0) {
							ok = false
						}
					}
					if ok {
						continue
					}
				}
				out = append(out, "call of "+name+" (not known to be pure) at "+at)
			}
		}
	}
	return out
}

func (tr *FnTrans) syntactic(kind, clause string, problems []string) {
	tr.oblCnt[kind]++
	o := &Obligation{Name: fmt.Sprintf("%s/%s#%d", tr.name, kind, tr.oblCnt[kind]), Kind: kind, Fn: tr.name, Props: tr.props,
		Expect: "unsat", Clause: clause, tr: tr, Syntactic: true, Solver: "syntactic"}
	if len(problems) == 0 {
		o.Status, o.Answer = "discharged", "unsat"
	} else {
		o.Status, o.Answer = "failed", "syntactic"
		o.Model = strings.Join(problems, "; ")
	}
	tr.obls = append(tr.obls, o)
}

func (tr *FnTrans) frameChecks() {
	if tr.c == nil {
		return
	}
	for _, sd := range tr.c.Sites {
		var probs []string
		for _, ms := range tr.missingSites {
			if ms.Alias == sd.Alias {
				probs = append(probs, fmt.Sprintf("no call matching %s#%d in %s", sd.Pattern, sd.K, tr.name))
			}
		}
		if len(probs) > 0 {
			tr.syntactic("site-exists["+sd.Alias+"]", "the call the contract refers to ("+sd.Pattern+"#"+fmt.Sprint(sd.K)+") exists", probs)
		}
	}
	if tr.c.Pure || (tr.c.ModSet && len(tr.c.Modifies) == 0) {
		if tr.c.FrameTrusted != "" {
			tr.usedSpecs["frame condition of "+tr.name+" trusted, not checked: "+tr.c.FrameTrusted] = true
		} else {
			tr.syntactic("frame:pure", "function declared pure / modifies nothing writes no caller-visible memory", tr.purityViolations())
		}
	}
	if tr.c.ModSet && len(tr.c.Modifies) > 0 && !tr.c.Assumed && tr.c.FrameTrusted != "" {
		tr.usedSpecs["frame condition of "+tr.name+" trusted, not checked: "+tr.c.FrameTrusted] = true
	} else if tr.c.ModSet && len(tr.c.Modifies) > 0 && !tr.c.Assumed {
		var allowed []string
		for _, m := range tr.c.Modifies {
			allowed = append(allowed, m.E.String())
		}
		frameEng = tr.eng
		var bad []string
		tr.modAllowed = allowed
		for _, v := range tr.purityOf(tr.fn, 0) {
			if strings.HasPrefix(v, "store to non-local memory") {
				continue // checked against the modifies clause below
			}
			bad = append(bad, v)
		}
		tr.modAllowed = nil
		for _, b := range tr.fn.Blocks {
			for _, in := range b.Instrs {
				st, ok := in.(*ssa.Store)
				if !ok || localRoot(st.Addr, 0) {
					continue
				}
				// address must be param.f.g... named in the modifies clause
				path := ""
				cur := st.Addr
				okShape := true
				for okShape {
					switch x := cur.(type) {
					case *ssa.FieldAddr:
						stt := x.X.Type().Underlying().(*types.Pointer).Elem().Underlying().(*types.Struct)
						path = "." + stt.Field(x.Field).Name() + path
						cur = x.X
						continue
					case *ssa.Parameter:
						path = x.Name() + path
					case *ssa.UnOp:
						// p.f.g where p.f is a pointer loaded from a by-value parameter that was
						// spilled to memory and whose field is never reassigned here
						if x.Op == token.MUL && spilledParamField(tr.fn, x.X) {
							cur = x.X
							continue
						}
						// v.f where v is a variable of the enclosing function that is never reassigned
						if fv, ok := x.X.(*ssa.FreeVar); ok && x.Op == token.MUL && capturedByRef(fv) && immutableCapture(fv) {
							path = fv.Name() + path
							break
						}
						// v.f.g: a pointer field loaded from such a variable's object, when this
						// function never assigns that field
						if fa, ok := x.X.(*ssa.FieldAddr); ok && x.Op == token.MUL && !fieldAssignedIn(tr.fn, fa) {
							cur = x.X
							continue
						}
						okShape = false
					case *ssa.Alloc:
						if p := spilledParam(tr.fn, x); p != nil {
							path = p.Name() + path
						} else {
							okShape = false
						}
					case *ssa.Phi:
						// the parameter itself or an object allocated here
						name := ""
						for _, e := range x.Edges {
							if p, ok := e.(*ssa.Parameter); ok {
								name = p.Name()
							} else if !localRoot(e, 0) {
								okShape = false
							}
						}
						if name == "" {
							okShape = false
						}
						path = name + path
					default:
						okShape = false
					}
					break
				}
				found := false
				root := path
				if i := strings.Index(root, "."); i >= 0 {
					root = root[:i]
				}
				for _, a := range allowed {
					if okShape && (a == path || a == "pointee("+root+")") {
						// pointee(p): everything reachable from the pointer parameter p, in particular *p itself
						found = true
					}
				}
				if !found {
					pos := tr.fn.Prog.Fset.Position(st.Pos())
					bad = append(bad, fmt.Sprintf("store to %s at line %d is not covered by the modifies clause", path, pos.Line))
				}
			}
		}
		tr.syntactic("frame:modifies", "function writes only what its modifies clause names: "+strings.Join(allowed, ", "), bad)
	}
	for src, inv := range tr.usedGlobalInvs {
		var probs []string
		for _, g := range globalsIn(inv.E, tr.fn.Pkg) {
			probs = append(probs, tr.eng.globalWriters(tr.fn.Pkg, g)...)
		}
		tr.syntactic("frame:global-invariant", "package variables in ["+src+"] are assigned only by package initialisation", probs)
	}
	if tr.c != nil {
		var ords []int
		for ord := range tr.c.Loops {
			ords = append(ords, ord)
		}
		sort.Ints(ords)
		for _, ord := range ords {
			found := false
			for _, o := range tr.loopOf {
				if o == ord {
					found = true
				}
			}
			if !found {
				tr.syntactic(fmt.Sprintf("loop-exists[%d]", ord), fmt.Sprintf("the loop the contract annotates (loop %d) exists", ord), []string{fmt.Sprintf("%s has %d loops", tr.name, len(tr.loopOf))})
			}
		}
	}
	for _, oc := range tr.onlyChecks {
		tr.syntactic("site-only["+oc.sd.Alias+"]", "the function calls "+oc.sd.Pattern+" at exactly one place, outside any loop (at most once per execution)", oc.probs)
	}
	if tr.c != nil && len(tr.c.Private) > 0 {
		tr.syntactic("frame:private", "objects of private variables ("+strings.Join(tr.c.Private, ", ")+") are freshly allocated and never handed on", tr.privateViolations())
	}
	for _, sf := range tr.stableFlds {
		var probs []string
		for _, v := range tr.eng.stableViolations(sf.owner) {
			if strings.Contains(v, "field "+sf.field+" ") {
				probs = append(probs, v)
			}
		}
		tr.syntactic("frame:stable-field", fmt.Sprintf("field %s of %s is assigned only by the function that allocates the object", sf.field, sf.owner), probs)
	}
	for i, t := range tr.stableTypes {
		if strings.HasPrefix(tr.stableVals[i].T, "(glob ") {
			tr.syntactic("frame:stable", "package variable "+tr.c.Stable[i]+" is written only by package initialisation", tr.eng.globalWriters(tr.fn.Pkg, strings.TrimPrefix(strings.Fields(tr.c.Stable[i])[0], "&")))
			continue
		}
		tr.syntactic("frame:stable", fmt.Sprintf("fields of %s are written only by the function that allocates the object", t), tr.eng.stableViolations(t))
	}
}

// stableViolations scans every loaded function of the repository for stores into fields of the
// struct type through pointers the function did not allocate itself.
func (e *Engine) stableViolations(t types.Type) []string {
	key := types.TypeString(t, nil)
	if v, ok := e.stableCache[key]; ok {
		return v
	}
	var out []string
	fieldName := ""
	rooted := func(v ssa.Value) (bool, bool) { // (is a field of t, through a local allocation)
		isField := false
		fieldName = ""
		cur := v
		for d := 0; d < 20; d++ {
			switch x := cur.(type) {
			case *ssa.FieldAddr:
				if pt, ok := x.X.Type().Underlying().(*types.Pointer); ok && types.Identical(pt.Elem(), t) {
					isField = true
					if stt, ok := t.Underlying().(*types.Struct); ok && x.Field < stt.NumFields() {
						fieldName = stt.Field(x.Field).Name()
					}
				}
				cur = x.X
				continue
			case *ssa.IndexAddr:
				cur = x.X
				continue
			}
			break
		}
		return isField, localRoot(v, 0)
	}
	for fn := range ssautil.AllFunctions(e.prog) {
		if fn.Pkg == nil || !strings.HasPrefix(fn.Pkg.Pkg.Path(), "github.com/google/certificate-transparency-go") {
			continue
		}
		for _, b := range fn.Blocks {
			for _, in := range b.Instrs {
				st, ok := in.(*ssa.Store)
				if !ok {
					continue
				}
				if isF, local := rooted(st.Addr); isF && !local {
					pos := e.prog.Fset.Position(st.Pos())
					out = append(out, fmt.Sprintf("%s writes field %s of %s at %s:%d", fn.String(), fieldName, key, pos.Filename, pos.Line))
				}
			}
		}
	}
	if e.stableCache == nil {
		e.stableCache = map[string][]string{}
	}
	e.stableCache[key] = out
	return out
}

// escapes reports whether the address of a local variable may become known to code outside the
// function before the function ends (callees, memory, results). A variable captured only by a
// closure that is itself used only in a defer statement does not escape to other callees.
func escapes(al *ssa.Alloc) bool {
	return escapesRec(al, map[*ssa.Alloc]bool{})
}

func escapesRec(al *ssa.Alloc, busy map[*ssa.Alloc]bool) bool {
	return escapesFromRec(al, al, busy)
}

// escapingFields: for a struct variable that escapes only through pointers to some of its fields,
// the set of (top-level) fields such a pointer is taken of; ok is false when the variable escapes
// as a whole. A pointer to one field gives no access to its siblings.
func escapingFields(al *ssa.Alloc) (fields map[int]bool, ok bool) {
	fields = map[int]bool{}
	refs := al.Referrers()
	if refs == nil {
		return nil, false
	}
	for _, r := range *refs {
		switch x := r.(type) {
		case *ssa.DebugRef, *ssa.UnOp:
		case *ssa.Store:
			if x.Val == ssa.Value(al) {
				return nil, false
			}
		case *ssa.FieldAddr:
			if escapesFromRec(al, x, map[*ssa.Alloc]bool{}) {
				fields[x.Field] = true
			}
		default:
			return nil, false
		}
	}
	return fields, true
}

// escapesFromRec: may the address `start` (the variable's own address or one derived from it) become
// known to code outside the function?
func escapesFromRec(al *ssa.Alloc, start ssa.Value, busy map[*ssa.Alloc]bool) bool {
	if start == ssa.Value(al) {
		if busy[al] {
			return false
		}
		busy[al] = true
		defer delete(busy, al)
	}
	seen := map[ssa.Value]bool{}
	var derived func(v ssa.Value) bool
	derived = func(v ssa.Value) bool {
		if seen[v] {
			return false
		}
		seen[v] = true
		refs := v.Referrers()
		if refs == nil {
			return true
		}
		for _, r := range *refs {
			switch x := r.(type) {
			case *ssa.DebugRef:
			case *ssa.FieldAddr:
				if derived(x) {
					return true
				}
			case *ssa.IndexAddr:
				if derived(x) {
					return true
				}
			case *ssa.UnOp:
				// load through the address: the loaded value is not the address
			case *ssa.Return:
				// handing the address to the caller does not expose it to callees of this function
			case *ssa.BinOp:
				// pointer comparison
			case *ssa.Store:
				if x.Val != v {
					continue // store through the address
				}
				// the address is stored into memory: fine when that memory is a local variable that
				// does not escape itself and whatever is loaded from it is used harmlessly
				root := x.Addr
				for {
					if fa, ok := root.(*ssa.FieldAddr); ok {
						root = fa.X
						continue
					}
					if ia, ok := root.(*ssa.IndexAddr); ok {
						root = ia.X
						continue
					}
					break
				}
				holder, ok := root.(*ssa.Alloc)
				if !ok || escapesRec(holder, busy) {
					return true
				}
				// every pointer-typed load from the holder may yield this address
				if loadsLeak(holder, derived) {
					return true
				}
			case *ssa.MakeClosure:
				// a closure that only reads the captured variable cannot change it, whoever runs it
				if closureOnlyReads(x, v) {
					continue
				}
				crefs := x.Referrers()
				if crefs == nil {
					return true
				}
				for _, cr := range *crefs {
					switch cx := cr.(type) {
					case *ssa.Defer:
						if cx.Call.Value != ssa.Value(x) {
							return true
						}
					case *ssa.Call:
						if cx.Call.Value == ssa.Value(x) {
							continue // called on the spot: its effects are those of the call
						}
						// handed to a callee that is declared to call it and not to keep it
						if !invokedOnly(cx.Common(), x) {
							return true
						}
					case *ssa.DebugRef:
					default:
						return true
					}
				}
			case *ssa.Slice:
				if derived(x) {
					return true
				}
			default:
				return true
			}
		}
		return false
	}
	return derived(start)
}

// closureOnlyReads: every use, inside the closure body, of the free variable bound to v is a load.
func closureOnlyReads(mc *ssa.MakeClosure, v ssa.Value) bool {
	fn, ok := mc.Fn.(*ssa.Function)
	if !ok {
		return false
	}
	for i, b := range mc.Bindings {
		if b != v || i >= len(fn.FreeVars) {
			continue
		}
		refs := fn.FreeVars[i].Referrers()
		if refs == nil {
			return false
		}
		for _, r := range *refs {
			switch u := r.(type) {
			case *ssa.DebugRef:
			case *ssa.UnOp:
				if u.Op != token.MUL {
					return false
				}
			case *ssa.FieldAddr:
				// reading a field of the captured variable
				frefs := u.Referrers()
				if frefs == nil {
					return false
				}
				for _, fr := range *frefs {
					switch fu := fr.(type) {
					case *ssa.DebugRef:
					case *ssa.UnOp:
						if fu.Op != token.MUL {
							return false
						}
					default:
						return false
					}
				}
			default:
				return false
			}
		}
	}
	return true
}

// invokedOnly: the function literal is passed to a callee whose (assumed) contract declares that
// parameter with `invokes`: the callee calls it and does not keep it.
func invokedOnly(cc *ssa.CallCommon, mc *ssa.MakeClosure) bool {
	if frameEng == nil {
		return false
	}
	spec := frameEng.lookupSpec(calleeName(cc), cc)
	if spec == nil || len(spec.Invokes) == 0 {
		return false
	}
	params, _ := sigNames(cc.Signature(), cc.IsInvoke())
	for i, a := range cc.Args {
		if ct, ok := a.(*ssa.ChangeType); ok {
			a = ct.X
		}
		if a != ssa.Value(mc) {
			continue
		}
		if i >= len(params) || !contains(spec.Invokes, params[i]) {
			return false
		}
	}
	return true
}

// loadsLeak: does any pointer-like value loaded from (a field of) the holder variable have a use
// that would let a callee see it?
func loadsLeak(holder *ssa.Alloc, derived func(ssa.Value) bool) bool {
	var walk func(v ssa.Value, depth int) bool
	walk = func(v ssa.Value, depth int) bool {
		if depth > 10 {
			return true
		}
		refs := v.Referrers()
		if refs == nil {
			return false
		}
		for _, r := range *refs {
			switch x := r.(type) {
			case *ssa.FieldAddr:
				if walk(x, depth+1) {
					return true
				}
			case *ssa.IndexAddr:
				if walk(x, depth+1) {
					return true
				}
			case *ssa.UnOp:
				if x.Op != token.MUL {
					continue
				}
				switch x.Type().Underlying().(type) {
				case *types.Pointer, *types.Slice, *types.Map, *types.Interface, *types.Struct:
					if derived(x) {
						return true
					}
				}
			}
		}
		return false
	}
	return walk(holder, 0)
}

// globalWriters lists functions other than package initialisation (init, and setup functions run
// once under sync.Once from constructors: setupMetrics) that assign a package-level variable.
func (e *Engine) globalWriters(pkg *ssa.Package, name string) []string {
	var out []string
	g, ok := pkg.Members[name].(*ssa.Global)
	if !ok {
		return []string{"no such package variable " + name}
	}
	for fn := range ssautil.AllFunctions(e.prog) {
		if fn.Pkg != pkg {
			continue
		}
		if fn.Name() == "init" || strings.HasPrefix(fn.Name(), "init#") || fn.Name() == "setupMetrics" {
			continue
		}
		for _, b := range fn.Blocks {
			for _, in := range b.Instrs {
				if st, ok := in.(*ssa.Store); ok && st.Addr == ssa.Value(g) {
					out = append(out, fn.String()+" assigns "+name)
				}
			}
		}
	}
	return out
}

// lvalPath renders a loaded lvalue of the shape param.f.g (empty when the value has another shape).
func lvalPath(v ssa.Value) string {
	ld, ok := v.(*ssa.UnOp)
	if !ok || ld.Op != token.MUL {
		return ""
	}
	path := ""
	cur := ld.X
	for {
		switch x := cur.(type) {
		case *ssa.FieldAddr:
			stt := x.X.Type().Underlying().(*types.Pointer).Elem().Underlying().(*types.Struct)
			path = "." + stt.Field(x.Field).Name() + path
			cur = x.X
			continue
		case *ssa.Parameter:
			return x.Name() + path
		case *ssa.Phi:
			name := ""
			for _, e := range x.Edges {
				if p, ok := e.(*ssa.Parameter); ok {
					name = p.Name()
				} else if !localRoot(e, 0) {
					return ""
				}
			}
			if name == "" {
				return ""
			}
			return name + path
		}
		return ""
	}
}

func contains(xs []string, x string) bool {
	for _, y := range xs {
		if y == x {
			return true
		}
	}
	return false
}

// globalsIn lists the package-level variables an expression mentions.
func globalsIn(x *Expr, pkg *ssa.Package) []string {
	var out []string
	var walk func(x *Expr)
	walk = func(x *Expr) {
		if x == nil {
			return
		}
		if x.Op == "id" {
			if _, ok := pkg.Members[x.S].(*ssa.Global); ok {
				out = append(out, x.S)
			}
		}
		for _, a := range x.A {
			walk(a)
		}
	}
	walk(x)
	return out
}

// translateModifies rewrites a callee modifies expression param.f.g into the caller's terms when the
// actual argument is one of the caller's parameters or the address of a field of one.
func translateModifies(x *Expr, cc *ssa.CallCommon) string {
	if x.Op == "call" && x.S == "pointee" && len(x.A) == 1 && x.A[0].Op == "id" {
		// the callee writes through a pointer it was handed: allowed when the caller handed on its
		// own parameter, whose pointee its own modifies clause names
		params, _ := sigNames(cc.Signature(), cc.IsInvoke())
		for i, n := range params {
			if n != x.A[0].S || i >= len(cc.Args) {
				continue
			}
			if p, ok := cc.Args[i].(*ssa.Parameter); ok {
				return "pointee(" + p.Name() + ")"
			}
		}
		return ""
	}
	var fields []string
	cur := x
	for cur != nil && cur.Op == "sel" {
		fields = append([]string{cur.S}, fields...)
		cur = cur.A[0]
	}
	if cur == nil || cur.Op != "id" {
		return ""
	}
	arg, _ := pointeeArg(cc, cur.S)
	if arg == nil {
		return ""
	}
	base := ""
	v := arg
	for {
		switch y := v.(type) {
		case *ssa.Parameter:
			base = y.Name() + base
			if len(fields) == 0 {
				return base
			}
			return base + "." + strings.Join(fields, ".")
		case *ssa.FieldAddr:
			stt := y.X.Type().Underlying().(*types.Pointer).Elem().Underlying().(*types.Struct)
			base = "." + stt.Field(y.Field).Name() + base
			v = y.X
			continue
		}
		return ""
	}
}

// spilledParam: the alloc is the memory home of a parameter (its first and only whole-variable
// store is the parameter itself, in the entry block).
func spilledParam(fn *ssa.Function, al *ssa.Alloc) *ssa.Parameter {
	var par *ssa.Parameter
	for _, b := range fn.Blocks {
		for _, in := range b.Instrs {
			st, ok := in.(*ssa.Store)
			if !ok || st.Addr != al {
				continue
			}
			p, isP := st.Val.(*ssa.Parameter)
			if !isP || par != nil || b.Index != 0 {
				return nil
			}
			par = p
		}
	}
	return par
}

// spilledParamField: addr is a field chain inside a spilled by-value parameter, and no store in the
// function writes that field chain (so a pointer loaded from it is the one the caller passed).
func spilledParamField(fn *ssa.Function, addr ssa.Value) bool {
	chain := func(v ssa.Value) (*ssa.Alloc, string) {
		path := ""
		for {
			switch x := v.(type) {
			case *ssa.FieldAddr:
				path = fmt.Sprintf(".%d", x.Field) + path
				v = x.X
				continue
			case *ssa.Alloc:
				return x, path
			}
			return nil, ""
		}
	}
	al, path := chain(addr)
	if al == nil || path == "" || spilledParam(fn, al) == nil {
		return false
	}
	for _, b := range fn.Blocks {
		for _, in := range b.Instrs {
			st, ok := in.(*ssa.Store)
			if !ok {
				continue
			}
			a2, p2 := chain(st.Addr)
			if a2 == al && p2 != "" && (strings.HasPrefix(path, p2) || strings.HasPrefix(p2, path)) {
				return false
			}
		}
	}
	// the alloc must not escape through calls (its address is only used for field access and loads)
	for _, ref := range *al.Referrers() {
		switch r := ref.(type) {
		case *ssa.FieldAddr, *ssa.Store, *ssa.DebugRef:
		case *ssa.UnOp:
			if r.Op != token.MUL {
				return false
			}
		default:
			return false
		}
	}
	return true
}

// fieldAssignedIn: the function stores to the same field (by struct type and index) somewhere.
func fieldAssignedIn(fn *ssa.Function, fa *ssa.FieldAddr) bool {
	for _, b := range fn.Blocks {
		for _, in := range b.Instrs {
			st, ok := in.(*ssa.Store)
			if !ok {
				continue
			}
			if a, ok := st.Addr.(*ssa.FieldAddr); ok && a.Field == fa.Field && types.Identical(a.X.Type(), fa.X.Type()) {
				return true
			}
		}
	}
	return false
}

// privateViolations checks the `private` declarations: the variable does not escape, every value
// stored in it is nil, a new object or a result some contract declares fresh, and every value loaded
// from it is used only to read or write fields (never stored, passed or returned).
func (tr *FnTrans) privateViolations() []string {
	var out []string
	fns := []*ssa.Function{tr.fn}
	fns = append(fns, tr.fn.AnonFuncs...)
	isPrivVar := func(v ssa.Value) bool {
		switch x := v.(type) {
		case *ssa.Alloc:
			return contains(tr.c.Private, x.Comment)
		case *ssa.FreeVar:
			return contains(tr.c.Private, x.Name())
		}
		return false
	}
	found := false
	for _, fn := range fns {
		for _, b := range fn.Blocks {
			for _, in := range b.Instrs {
				pos := tr.fn.Prog.Fset.Position(in.Pos())
				switch x := in.(type) {
				case *ssa.Alloc:
					if contains(tr.c.Private, x.Comment) {
						found = true
						if escapes(x) {
							out = append(out, fmt.Sprintf("variable %s escapes (line %d)", x.Comment, pos.Line))
						}
					}
				case *ssa.Store:
					if !isPrivVar(x.Addr) {
						continue
					}
					okVal := false
					switch v := x.Val.(type) {
					case *ssa.Const:
						okVal = v.IsNil()
					case *ssa.Alloc:
						okVal = v.Heap
					case *ssa.MakeMap, *ssa.MakeSlice:
						okVal = true
					case *ssa.Extract:
						if call, ok := v.Tuple.(*ssa.Call); ok {
							if spec := tr.eng.lookupSpec(calleeName(call.Common()), call.Common()); spec != nil {
								okVal = contains(spec.Fresh, fmt.Sprintf("result%d", v.Index))
							}
						}
					case *ssa.Call:
						if spec := tr.eng.lookupSpec(calleeName(v.Common()), v.Common()); spec != nil {
							okVal = contains(spec.Fresh, "result") || contains(spec.Fresh, "result0")
						}
					}
					if !okVal {
						out = append(out, fmt.Sprintf("value stored in %s at line %d is not known to be freshly allocated", x.Addr.Name(), pos.Line))
					}
				case *ssa.UnOp:
					if x.Op != token.MUL || !isPrivVar(x.X) {
						continue
					}
					if refs := x.Referrers(); refs != nil {
						for _, r := range *refs {
							switch u := r.(type) {
							case *ssa.FieldAddr, *ssa.DebugRef, *ssa.Lookup, *ssa.MapUpdate, *ssa.Range:
							case *ssa.BinOp:
								_ = u // comparison with nil
							case *ssa.Call:
								// handed to a callee that writes no memory (it cannot keep or change it)
								cc := u.Common()
								if b, isB := cc.Value.(*ssa.Builtin); isB && (b.Name() == "len" || b.Name() == "delete") {
									continue
								}
								if spec := tr.eng.lookupSpec(calleeName(cc), cc); spec != nil && (spec.Pure || (spec.ModSet && len(spec.Modifies) == 0)) {
									continue
								}
								out = append(out, fmt.Sprintf("value of a private variable is passed to %s at line %d", calleeName(cc), tr.fn.Prog.Fset.Position(r.Pos()).Line))
							default:
								out = append(out, fmt.Sprintf("pointer loaded from a private variable is used by %T at line %d", r, tr.fn.Prog.Fset.Position(r.Pos()).Line))
							}
						}
					}
				}
			}
		}
	}
	for _, mk := range tr.privateMakeMaps() {
		found = true
		if refs := mk.Referrers(); refs != nil {
			for _, r := range *refs {
				switch u := r.(type) {
				case *ssa.DebugRef, *ssa.Lookup, *ssa.MapUpdate, *ssa.Range:
				case *ssa.Call:
					cc := u.Common()
					if b, isB := cc.Value.(*ssa.Builtin); isB && (b.Name() == "len" || b.Name() == "delete") {
						continue
					}
					if spec := tr.eng.lookupSpec(calleeName(cc), cc); spec != nil && (spec.Pure || (spec.ModSet && len(spec.Modifies) == 0)) {
						continue
					}
					out = append(out, fmt.Sprintf("private map is passed to %s at line %d", calleeName(cc), tr.fn.Prog.Fset.Position(r.Pos()).Line))
				default:
					out = append(out, fmt.Sprintf("private map is used by %T at line %d", r, tr.fn.Prog.Fset.Position(r.Pos()).Line))
				}
			}
		}
	}
	if !found {
		out = append(out, "no such local variable")
	}
	return out
}

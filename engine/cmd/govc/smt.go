package main

// SMT-side representation: sorts, values, heap.

import (
	"fmt"
	"go/types"
	"math/big"
	"sort"
	"strings"
)

// Val is a symbolic value: an SMT term together with its Go type.
type Val struct {
	T     string
	Ty    types.Type
	Tuple []Val      // for tuple-typed SSA values
	Const *big.Int   // untyped integer constant (contract literals)
	Type_ types.Type // for type expressions in contracts
}

var tyWide = types.NewNamed(types.NewTypeName(0, nil, "wide", nil), types.Typ[types.Int64], nil)

// tyMath is the sort of unbounded mathematical integers in contracts (instants, ghost counters),
// available in both arithmetic modes.
var tyMath = types.NewNamed(types.NewTypeName(0, nil, "mathint", nil), types.Typ[types.Int64], nil)

const refDecl = `(declare-datatypes ((Ref 0)) (((nil) (obj (objid Int)) (loc (locid Int)) (glob (globid Int)) (fld (fbase Ref) (fidx Int)) (elem (ebase Ref) (eidx IDX)))))`

// Smt holds everything that makes up the text of the queries of one function.
type Smt struct {
	intMode     bool
	prelude     []string          // sort and datatype declarations
	decls       []string          // declare-const / define-fun in program order
	structs     map[string]string // struct type key -> sort name
	structTy    map[string]*types.Struct
	nameCnt     map[string]int
	strConst    map[string]string
	boxed       map[string]bool
	tags        map[string]int
	tagTypes    []types.Type
	ufs         map[string]bool
	witFns      map[string]string // witness functions of existentials nested in universals
	fieldIDs    map[string]int
	eng         *Engine
	defCache    map[string]string
	onDerive    func(newName string, from []string)
	onFreshHeap func(name, ac string)
}

func newSmt(eng *Engine, intMode bool) *Smt {
	s := &Smt{intMode: intMode, structs: map[string]string{}, structTy: map[string]*types.Struct{}, nameCnt: map[string]int{},
		strConst: map[string]string{}, boxed: map[string]bool{}, tags: map[string]int{}, ufs: map[string]bool{}, fieldIDs: eng.fieldIDs, eng: eng}
	idx := "(_ BitVec 64)"
	if intMode {
		idx = "Int"
	}
	s.prelude = append(s.prelude,
		strings.ReplaceAll(refDecl, "IDX", idx),
		"(define-sort Str () Int)",
		"(define-sort F64 () Real)",
		fmt.Sprintf("(declare-datatypes ((Slice 0)) (((mkslice (sbase Ref) (soff %s) (slen %s) (scap %s)))))", idx, idx, idx),
		"(declare-datatypes ((Iface 0)) (((mkiface (itag Int) (idata Int)))))",
		"(define-fun-rec rootloc ((r Ref)) Int (ite ((_ is loc) r) (locid r) (ite ((_ is fld) r) (rootloc (fbase r)) (ite ((_ is elem) r) (rootloc (ebase r)) (- 1)))))",
		"(declare-const ac0 Int)",
		"(assert (>= ac0 0))",
		fmt.Sprintf("(declare-fun strlen (Str) %s)", idx),
		fmt.Sprintf("(declare-fun strat (Str %s) %s)", idx, s.intSortW(8)),
		"(declare-fun str_concat (Str Str) Str)",
		"(define-fun str_empty () Str 0)",
		"(define-fun f64_zero () F64 0.0)",
	)
	if intMode {
		s.prelude = append(s.prelude,
			"(define-fun wfslice ((s Slice)) Bool (and (<= 0 (slen s)) (<= (slen s) (scap s)) (<= (scap s) 281474976710656) (<= 0 (soff s)) (<= (soff s) 281474976710656) (=> (= (sbase s) nil) (= (scap s) 0))))",
			"(define-fun wfstr ((s Str)) Bool (and (<= 0 (strlen s)) (<= (strlen s) 281474976710656) (=> (= (strlen s) 0) (= s str_empty))))", // the only string of length 0 is ""
			"(define-fun go_rem ((x Int) (y Int)) Int (ite (>= x 0) (mod x y) (- (mod (- x) y))))",
			"(define-fun go_quo ((x Int) (y Int)) Int (ite (>= x 0) (div x y) (- (div (- x) y))))")
	} else {
		s.prelude = append(s.prelude,
			"(define-fun wfslice ((s Slice)) Bool (and (bvsle (_ bv0 64) (slen s)) (bvsle (slen s) (scap s)) (bvsle (scap s) (_ bv281474976710656 64)) (bvsle (_ bv0 64) (soff s)) (bvsle (soff s) (_ bv281474976710656 64)) (=> (= (sbase s) nil) (= (scap s) (_ bv0 64)))))",
			"(define-fun wfstr ((s Str)) Bool (and (bvsle (_ bv0 64) (strlen s)) (bvsle (strlen s) (_ bv281474976710656 64)) (=> (= (strlen s) (_ bv0 64)) (= s str_empty))))")
	}
	s.prelude = append(s.prelude, fmt.Sprintf("(assert (= (strlen str_empty) %s))", s.intLit(big.NewInt(0), 64)))
	return s
}

func (s *Smt) intSortW(w int) string {
	if s.intMode {
		return "Int"
	}
	return fmt.Sprintf("(_ BitVec %d)", w)
}

// intLit renders an integer literal of width w (two's complement in bv mode).
func (s *Smt) intLit(v *big.Int, w int) string {
	if s.intMode {
		if v.Sign() < 0 {
			return fmt.Sprintf("(- %s)", new(big.Int).Neg(v).String())
		}
		return v.String()
	}
	m := new(big.Int).Lsh(big.NewInt(1), uint(w))
	x := new(big.Int).Mod(v, m)
	return fmt.Sprintf("(_ bv%s %d)", x.String(), w)
}

func (s *Smt) uniq(prefix string) string {
	prefix = sanitize(prefix)
	n := s.nameCnt[prefix]
	s.nameCnt[prefix] = n + 1
	return fmt.Sprintf("%s!%d", prefix, n)
}

func sanitize(x string) string {
	var b strings.Builder
	for _, r := range x {
		switch {
		case r >= 'a' && r <= 'z', r >= 'A' && r <= 'Z', r >= '0' && r <= '9', r == '_', r == '.':
			b.WriteRune(r)
		default:
			b.WriteRune('_')
		}
	}
	return b.String()
}

func (s *Smt) fresh(prefix, sortName string) string {
	n := s.uniq(prefix)
	s.decls = append(s.decls, fmt.Sprintf("(declare-const %s %s)", n, sortName))
	return n
}

func (s *Smt) define(prefix, sortName, term string) string {
	// short atoms need no name
	if !strings.ContainsAny(term, " (") {
		return term
	}
	n := s.uniq(prefix)
	s.decls = append(s.decls, fmt.Sprintf("(define-fun %s () %s %s)", n, sortName, term))
	return n
}

// defineCached names a term once; later requests for the same term get the same name.
func (s *Smt) defineCached(prefix, sortName, term string) string {
	if s.defCache == nil {
		s.defCache = map[string]string{}
	}
	key := sortName + "|" + term
	if n, ok := s.defCache[key]; ok {
		return n
	}
	n := s.define(prefix, sortName, term)
	s.defCache[key] = n
	return n
}

func (s *Smt) declareFun(name string, args []string, ret string) {
	if s.ufs[name] {
		return
	}
	s.ufs[name] = true
	s.prelude = append(s.prelude, fmt.Sprintf("(declare-fun %s (%s) %s)", name, strings.Join(args, " "), ret))
}

func isInteger(t types.Type) bool {
	if t == tyWide || t == tyMath {
		return true
	}
	b, ok := t.Underlying().(*types.Basic)
	return ok && b.Info()&types.IsInteger != 0
}

func isUnsigned(t types.Type) bool {
	if t == tyWide {
		return false
	}
	b, ok := t.Underlying().(*types.Basic)
	return ok && b.Info()&types.IsUnsigned != 0
}

func intWidth(t types.Type) int {
	if t == tyWide {
		return 128
	}
	b, ok := t.Underlying().(*types.Basic)
	if !ok {
		return 0
	}
	switch b.Kind() {
	case types.Int8, types.Uint8:
		return 8
	case types.Int16, types.Uint16:
		return 16
	case types.Int32, types.Uint32:
		return 32
	case types.Int, types.Uint, types.Int64, types.Uint64, types.Uintptr, types.UntypedInt, types.UntypedRune:
		return 64
	}
	return 0
}

func (s *Smt) fieldID(st *types.Struct, i int) int {
	key := structKey(st) + "#" + fmt.Sprint(i)
	if id, ok := s.fieldIDs[key]; ok {
		return id
	}
	id := len(s.fieldIDs) + 1
	s.fieldIDs[key] = id
	return id
}

func structKey(st *types.Struct) string {
	return types.TypeString(st, nil)
}

// sortOf maps a Go type to an SMT sort, declaring struct datatypes on demand.
func (s *Smt) sortOf(t types.Type) string {
	if t == tyWide {
		return s.intSortW(128)
	}
	if t == tyMath {
		return "Int"
	}
	switch u := t.Underlying().(type) {
	case *types.Basic:
		switch {
		case u.Info()&types.IsBoolean != 0:
			return "Bool"
		case u.Info()&types.IsInteger != 0:
			return s.intSortW(intWidth(u))
		case u.Info()&types.IsString != 0:
			return "Str"
		case u.Info()&(types.IsFloat|types.IsComplex) != 0:
			return "F64"
		case u.Kind() == types.UnsafePointer:
			return "Ref"
		case u.Kind() == types.UntypedNil:
			return "Ref"
		}
	case *types.Pointer, *types.Map, *types.Chan, *types.Signature:
		return "Ref"
	case *types.Slice:
		return "Slice"
	case *types.Interface:
		return "Iface"
	case *types.Array:
		return fmt.Sprintf("(Array %s %s)", s.intSortW(64), s.sortOf(u.Elem()))
	case *types.Struct:
		key := structKey(u)
		if n, ok := s.structs[key]; ok {
			return n
		}
		name := fmt.Sprintf("S%d", len(s.structs))
		if nt, ok := t.(*types.Named); ok {
			name = fmt.Sprintf("S%d_%s", len(s.structs), sanitize(nt.Obj().Name()))
		}
		s.structs[key] = name
		s.structTy[name] = u
		var fs []string
		for i := 0; i < u.NumFields(); i++ {
			fs = append(fs, fmt.Sprintf("(%s_f%d %s)", name, i, s.sortOf(u.Field(i).Type())))
		}
		if len(fs) == 0 {
			s.prelude = append(s.prelude, fmt.Sprintf("(declare-datatypes ((%s 0)) (((mk%s))))", name, name))
		} else {
			s.prelude = append(s.prelude, fmt.Sprintf("(declare-datatypes ((%s 0)) (((mk%s %s))))", name, name, strings.Join(fs, " ")))
		}
		return name
	case *types.Tuple:
		return "TUPLE"
	case *types.TypeParam:
		return "Iface"
	}
	panic(unsupported(fmt.Sprintf("sortOf: unsupported type %s", t)))
}

type unsupportedErr struct{ msg string }

func unsupported(msg string) unsupportedErr { return unsupportedErr{msg} }

func (s *Smt) zero(t types.Type) string {
	if t == tyWide {
		return s.intLit(big.NewInt(0), 128)
	}
	if t == tyMath {
		return "0"
	}
	switch u := t.Underlying().(type) {
	case *types.Basic:
		switch {
		case u.Info()&types.IsBoolean != 0:
			return "false"
		case u.Info()&types.IsInteger != 0:
			return s.intLit(big.NewInt(0), intWidth(u))
		case u.Info()&types.IsString != 0:
			return "str_empty"
		case u.Info()&(types.IsFloat|types.IsComplex) != 0:
			return "f64_zero"
		default:
			return "nil"
		}
	case *types.Pointer, *types.Map, *types.Chan, *types.Signature:
		return "nil"
	case *types.Slice:
		z := s.intLit(big.NewInt(0), 64)
		return fmt.Sprintf("(mkslice nil %s %s %s)", z, z, z)
	case *types.Interface, *types.TypeParam:
		return "(mkiface 0 0)"
	case *types.Array:
		return fmt.Sprintf("((as const %s) %s)", s.sortOf(t), s.zero(u.Elem()))
	case *types.Struct:
		name := s.sortOf(t)
		if u.NumFields() == 0 {
			return "mk" + name
		}
		var fs []string
		for i := 0; i < u.NumFields(); i++ {
			fs = append(fs, s.zero(u.Field(i).Type()))
		}
		return fmt.Sprintf("(mk%s %s)", name, strings.Join(fs, " "))
	}
	panic(unsupported(fmt.Sprintf("zero: unsupported type %s", t)))
}

// strLit returns the symbol of a string constant; distinct constants are
// asserted distinct and their lengths are known.
func (s *Smt) strLit(v string) string {
	if v == "" {
		return "str_empty"
	}
	if n, ok := s.strConst[v]; ok {
		return n
	}
	n := fmt.Sprintf("strc!%d", len(s.strConst))
	s.strConst[v] = n
	s.prelude = append(s.prelude, fmt.Sprintf("(define-fun %s () Str %d) ; %q", n, len(s.strConst), trunc(v, 40)))
	s.prelude = append(s.prelude, fmt.Sprintf("(assert (= (strlen %s) %s))", n, s.intLit(big.NewInt(int64(len(v))), 64)))
	if len(v) <= 8 {
		for i := 0; i < len(v); i++ {
			s.prelude = append(s.prelude, fmt.Sprintf("(assert (= (strat %s %s) %s))", n, s.intLit(big.NewInt(int64(i)), 64), s.intLit(big.NewInt(int64(v[i])), 8)))
		}
	}
	return n
}

func trunc(s string, n int) string {
	s = strings.ReplaceAll(s, "\n", " ")
	if len(s) > n {
		return s[:n] + "..."
	}
	return s
}

// strDistinct returns the assertion making all string constants pairwise distinct.
func (s *Smt) strDistinct() string {
	if true {
		return "" // literals are distinct integers by construction
	}
	names := []string{"str_empty"}
	var ks []string
	for _, n := range s.strConst {
		ks = append(ks, n)
	}
	sort.Strings(ks)
	names = append(names, ks...)
	return fmt.Sprintf("(assert (distinct %s))", strings.Join(names, " "))
}

// typeTag gives a stable nonzero integer tag for a concrete dynamic type.
func (s *Smt) typeTag(t types.Type) int {
	t = types.Unalias(t)
	key := types.TypeString(t, nil)
	if id, ok := s.tags[key]; ok {
		return id
	}
	id := len(s.tags) + 1
	s.tags[key] = id
	s.tagTypes = append(s.tagTypes, t)
	return id
}

// box/unbox functions convert a value of a sort into the integer payload of an interface.
func (s *Smt) boxFn(sortName string) (string, string) {
	k := sanitize(sortName)
	b, u := "box_"+k, "unbox_"+k
	if !s.boxed[k] {
		s.boxed[k] = true
		s.prelude = append(s.prelude, fmt.Sprintf("(declare-fun %s (%s) Int)", b, sortName), fmt.Sprintf("(declare-fun %s (Int) %s)", u, sortName))
	}
	return b, u
}

// ---------------------------------------------------------------- heap

// Heap is a persistent map from cell-sort key to the SMT array holding all cells of that sort.
type Heap struct {
	id     int
	over   map[string]string
	next   *Heap
	merge  []*Heap  // merge node parents
	mconds []string // merge edge conditions (same length as merge)
	root   bool
	smt    *Smt
	ac     string // allocation counter when this (root) heap state came into being
	asOf   string // (state right after a call) allocation counter at that moment: every pointer in memory refers to an older object
}

var heapSeq int

func (s *Smt) newRootHeap() *Heap {
	heapSeq++
	return &Heap{id: heapSeq, over: map[string]string{}, root: true, smt: s}
}

func (h *Heap) child() *Heap {
	heapSeq++
	return &Heap{id: heapSeq, over: map[string]string{}, next: h, smt: h.smt}
}

// asOfCounter: the allocation counter of the moment this heap state describes, when that is known
// (the node was created right after a call and nothing has been stored since).
func (h *Heap) asOfCounter() string {
	for n := h; n != nil; n = n.next {
		if n.asOf != "" {
			return n.asOf
		}
		if len(n.over) > 0 || len(n.merge) > 0 {
			return ""
		}
	}
	return ""
}

func heapKey(cellSort string) string { return sanitize(cellSort) }

func (h *Heap) arraySort(cellSort string) string {
	return fmt.Sprintf("(Array Ref %s)", cellSort)
}

// lookup returns the array term for the given cell sort in this heap state.
func (h *Heap) lookup(cellSort string) string {
	k := heapKey(cellSort)
	if t, ok := h.over[k]; ok {
		return t
	}
	var t string
	switch {
	case h.root:
		t = h.smt.fresh(fmt.Sprintf("H%d_%s", h.id, k), h.arraySort(cellSort))
		if h.smt.onFreshHeap != nil {
			h.smt.onFreshHeap(t, h.ac)
		}
	case h.merge != nil:
		terms := make([]string, len(h.merge))
		same := true
		for i, p := range h.merge {
			terms[i] = p.lookup(cellSort)
			if terms[i] != terms[0] {
				same = false
			}
		}
		if same {
			t = terms[0]
		} else {
			acc := terms[len(terms)-1]
			for i := len(terms) - 2; i >= 0; i-- {
				acc = fmt.Sprintf("(ite %s %s %s)", h.mconds[i], terms[i], acc)
			}
			t = h.smt.define(fmt.Sprintf("Hm%d_%s", h.id, k), h.arraySort(cellSort), acc)
			if h.smt.onDerive != nil {
				h.smt.onDerive(t, terms)
			}
		}
	default:
		t = h.next.lookup(cellSort)
	}
	h.over[k] = t
	return t
}

func (h *Heap) set(cellSort, term string) {
	h.over[heapKey(cellSort)] = term
}

func mergeHeaps(s *Smt, hs []*Heap, conds []string) *Heap {
	if len(hs) == 1 {
		return hs[0].child()
	}
	allSame := true
	for _, h := range hs {
		if h != hs[0] {
			allSame = false
		}
	}
	if allSame {
		return hs[0].child()
	}
	heapSeq++
	return &Heap{id: heapSeq, over: map[string]string{}, merge: hs, mconds: conds, smt: s}
}

// domSort: heap cell sort of the key set of a map with keys of sort ks. The spelling (two spaces) is
// deliberately different from the value sort of a map[K]bool, "(Array K Bool)": key sets and values
// live in different heap components.
func domSort(ks string) string { return "(Array " + ks + "  Bool)" }

package main

import (
	"fmt"
	"go/types"
	"os"
	"path/filepath"
	"sort"
	"strings"

	"golang.org/x/tools/go/packages"
	"golang.org/x/tools/go/ssa"
	"golang.org/x/tools/go/ssa/ssautil"
)

type Engine struct {
	repo            string
	verifDir        string
	pkgs            []*packages.Package
	allPkgs         map[string]*packages.Package
	prog            *ssa.Program
	files           []*ContractFile
	byFull          map[string]*Contract // callee full name -> contract (repo functions under contract)
	assumed         map[string]*Contract // callee full name -> assumed contract
	fnOf            map[*Contract]*ssa.Function
	pure            []string
	specFuncs       map[string]*SpecFunc
	lemmas          []*Lemma
	fieldIDs        map[string]int
	globalIDs       map[string]int
	byName          map[string]*types.Package
	orphans         []orphan
	loadErrs        []string
	overlay         map[string][]byte
	replayTemplates map[string]*replayTemplate
	stableCache     map[string][]string
	decoded         []*Decoded
	globalInvs      map[string][]Clause // package dir -> invariants
}

func newEngine(repo, verifDir string) *Engine {
	return &Engine{repo: repo, verifDir: verifDir, byFull: map[string]*Contract{}, assumed: map[string]*Contract{}, fnOf: map[*Contract]*ssa.Function{},
		specFuncs: map[string]*SpecFunc{}, fieldIDs: map[string]int{}, globalIDs: map[string]int{}, byName: map[string]*types.Package{}, allPkgs: map[string]*packages.Package{}}
}

// readContracts parses all contract files (repo + assumed specs).
func (e *Engine) readContracts() error {
	e.replayTemplates = loadReplayTemplates(filepath.Join(e.verifDir, "replay"))
	repoFiles, err := findContractFiles(e.repo)
	if err != nil {
		return err
	}
	for _, p := range repoFiles {
		if e.overlay != nil {
			if _, ok := e.overlay[p]; ok {
				// contract files are never overlaid
			}
		}
		cf, err := parseContractFile(p)
		if err != nil {
			return err
		}
		e.files = append(e.files, cf)
	}
	specs, _ := filepath.Glob(filepath.Join(e.verifDir, "contracts", "assumed", "*.spec"))
	shared, _ := filepath.Glob(filepath.Join(e.verifDir, "contracts", "shared", "*.spec"))
	specs = append(specs, shared...)
	sort.Strings(specs)
	for _, p := range specs {
		cf, err := parseContractFile(p)
		if err != nil {
			return err
		}
		cf.Dir = ""
		for _, c := range cf.Contracts {
			c.Assumed = true
			if c.Func == "pure-callees" {
				continue
			}
			if old, dup := e.assumed[c.Func]; dup && old != c {
				return fmt.Errorf("%s:%d: a second assumed contract for %s (the first is at %s:%d): keep one", c.File, c.Line, c.Func, old.File, old.Line)
			}
			e.assumed[c.Func] = c
		}
		e.files = append(e.files, cf)
		// pure lists:  //@ func pure-callees  //@ note pattern pattern ...
		for _, c := range cf.Contracts {
			if c.Func == "pure-callees" {
				for _, n := range c.Notes {
					e.pure = append(e.pure, strings.Fields(n)...)
				}
			}
		}
	}
	for _, cf := range e.files {
		for _, sf := range cf.Specs {
			if _, dup := e.specFuncs[sf.Name]; dup {
				return fmt.Errorf("%s:%d: duplicate spec function %s", sf.File, sf.Line, sf.Name)
			}
			e.specFuncs[sf.Name] = sf
		}
		macroTable = e.specFuncs
		e.lemmas = append(e.lemmas, cf.Lemmas...)
		if len(cf.GlobalInvs) > 0 {
			if e.globalInvs == nil {
				e.globalInvs = map[string][]Clause{}
			}
			e.globalInvs[cf.Dir] = append(e.globalInvs[cf.Dir], cf.GlobalInvs...)
		}
		for _, d := range cf.Decoded {
			d.Dir = cf.Dir
			e.decoded = append(e.decoded, d)
		}
	}
	return nil
}

// dirsForProps returns the repo-relative package directories that hold contracts for the given properties.
func (e *Engine) dirsFor(props map[string]bool) []string {
	set := map[string]bool{}
	for _, cf := range e.files {
		if cf.Dir == "" {
			continue
		}
		for _, c := range cf.Contracts {
			for _, p := range c.Props {
				if props == nil || props[p] {
					set[cf.Dir] = true
				}
			}
		}
	}
	var out []string
	for d := range set {
		out = append(out, d)
	}
	sort.Strings(out)
	return out
}

func (e *Engine) load(dirs []string, extra []string) error {
	var patterns []string
	for _, d := range dirs {
		rel, err := filepath.Rel(e.repo, d)
		if err != nil {
			return err
		}
		patterns = append(patterns, "./"+rel)
	}
	patterns = append(patterns, extra...)
	cfg := &packages.Config{Mode: packages.LoadAllSyntax, Dir: e.repo, BuildFlags: []string{"-tags=verif"},
		Env: append(os.Environ(), "GOFLAGS=-mod=mod", "GOPROXY=off", "GOSUMDB=off", "GOTOOLCHAIN=local")}
	if e.overlay != nil {
		cfg.Overlay = e.overlay
	}
	pkgs, err := packages.Load(cfg, patterns...)
	if err != nil {
		return err
	}
	packages.Visit(pkgs, nil, func(p *packages.Package) {
		for _, er := range p.Errors {
			if strings.HasPrefix(p.PkgPath, "github.com/google/certificate-transparency-go") {
				e.loadErrs = append(e.loadErrs, er.Error())
			}
		}
		e.allPkgs[p.PkgPath] = p
		if p.Types != nil {
			const repoPrefix = "github.com/google/certificate-transparency-go"
			old, ok := e.byName[p.Types.Name()]
			better := !ok
			if ok {
				oldRepo, newRepo := strings.HasPrefix(old.Path(), repoPrefix), strings.HasPrefix(p.PkgPath, repoPrefix)
				switch {
				case newRepo && !oldRepo:
					better = true
				case newRepo == oldRepo && p.PkgPath < old.Path():
					better = true
				}
			}
			if better {
				e.byName[p.Types.Name()] = p.Types
			}
		}
	})
	if len(e.loadErrs) > 0 {
		return fmt.Errorf("package errors: %s", strings.Join(e.loadErrs, "; "))
	}
	e.pkgs = pkgs
	prog, _ := ssautil.AllPackages(pkgs, ssa.GlobalDebug|ssa.InstantiateGenerics)
	// build only the packages we verify plus nothing else: callee bodies are never inlined
	for _, p := range pkgs {
		if sp := prog.Package(p.Types); sp != nil {
			sp.Build()
		}
	}
	e.prog = prog
	// bind contracts to functions
	for _, cf := range e.files {
		if cf.Dir == "" {
			continue
		}
		var pkg *packages.Package
		for _, p := range pkgs {
			if len(p.GoFiles) > 0 && filepath.Dir(p.GoFiles[0]) == cf.Dir {
				pkg = p
			}
		}
		if pkg == nil {
			continue
		}
		sp := prog.Package(pkg.Types)
		if sp == nil {
			continue
		}
		fns := map[string]*ssa.Function{}
		for fn := range ssautil.AllFunctions(prog) {
			if fn.Pkg == sp && fn.Synthetic == "" {
				fns[fn.RelString(pkg.Types)] = fn
			}
		}
		if len(cf.InitInvs) > 0 {
			// the package initializer is verified against the invariants it is said to establish,
			// under every property that has a contract in this package
			if initFn := sp.Func("init"); initFn != nil {
				props := map[string]bool{}
				for _, c := range cf.Contracts {
					for _, p := range c.Props {
						props[p] = true
					}
				}
				ic := &Contract{Func: "init", File: cf.Path, Line: cf.InitInvs[0].Line, IsInit: true}
				for p := range props {
					ic.Props = append(ic.Props, p)
				}
				sort.Strings(ic.Props)
				for _, inv := range cf.InitInvs {
					c := inv
					if c.Name == "" {
						c.Name = "init-establishes"
					}
					ic.Ensures = append(ic.Ensures, c)
				}
				cf.Contracts = append(cf.Contracts, ic)
				fns["init"] = initFn
			}
		}
		for _, c := range cf.Contracts {
			if c.Assumed {
				if old, dup := e.assumed[c.Func]; dup && old != c {
					return fmt.Errorf("%s:%d: a second assumed contract for %s (the first is at %s:%d): the later one would silently replace the earlier; keep one", c.File, c.Line, c.Func, old.File, old.Line)
				}
				e.assumed[c.Func] = c
				continue
			}
			fn := fns[c.Func]
			if fn == nil {
				// the function the contract was written on is gone (removed, renamed, a function
				// literal folded away): nothing can be generated for it; reported per property as a
				// failed obligation, so that the clauses it carried do not silently stop being checked
				e.orphans = append(e.orphans, orphan{c, pkg.PkgPath})
				continue
			}
			if _, dup := e.assumed[fn.String()]; dup {
				return fmt.Errorf("%s:%d: %s has both a verified contract here and an assumed contract in /verif/contracts/assumed: callers would silently lose the assumed clauses; keep one", c.File, c.Line, fn.String())
			}
			if old, dup := e.byFull[fn.String()]; dup && old != c {
				return fmt.Errorf("%s:%d: a second contract for %s (the first is at %s:%d): callers would see only the later one; merge them", c.File, c.Line, fn.String(), old.File, old.Line)
			}
			e.fnOf[c] = fn
			e.byFull[fn.String()] = c
		}
	}
	return nil
}

type orphan struct {
	c   *Contract
	pkg string
}

func (e *Engine) pkgByName(n string) *types.Package { return e.byName[n] }

func (e *Engine) importsOf(file string, pkg *types.Package) map[string]*types.Package { return nil }

func (e *Engine) lookupSpec(name string, cc *ssa.CallCommon) *Contract {
	if c, ok := e.byFull[name]; ok {
		return c
	}
	if c, ok := e.assumed[name]; ok {
		return c
	}
	return nil
}

func (e *Engine) isPureCallee(name string) bool {
	if strings.HasSuffix(name, ".init") && !strings.Contains(name, "(") {
		return true // initializer of an imported package: it cannot assign this package's variables
	}
	for _, p := range e.pure {
		if strings.HasSuffix(p, "*") {
			if strings.HasPrefix(name, p[:len(p)-1]) {
				return true
			}
		} else if p == name {
			return true
		}
	}
	return false
}

// isProtoGetter recognises calls to generated protobuf getters (*T).GetX() where T has a field X
// of the result type, and returns the field index.
func isProtoGetter(cc *ssa.CallCommon) *protoGetterInfo {
	fn, ok := cc.Value.(*ssa.Function)
	if !ok || cc.IsInvoke() || len(cc.Args) != 1 || !strings.HasPrefix(fn.Name(), "Get") {
		return nil
	}
	sig := fn.Signature
	if sig.Recv() == nil || sig.Results().Len() != 1 || sig.Params().Len() != 0 {
		return nil
	}
	pt, ok := sig.Recv().Type().Underlying().(*types.Pointer)
	if !ok {
		return nil
	}
	st, ok := pt.Elem().Underlying().(*types.Struct)
	if !ok {
		return nil
	}
	isProto := false
	for i := 0; i < st.NumFields(); i++ {
		if st.Field(i).Name() == "sizeCache" || st.Field(i).Name() == "unknownFields" {
			isProto = true
		}
	}
	if !isProto {
		return nil
	}
	want := fn.Name()[3:]
	for i := 0; i < st.NumFields(); i++ {
		if st.Field(i).Name() == want && types.Identical(st.Field(i).Type(), sig.Results().At(0).Type()) {
			return &protoGetterInfo{st, i, st.Field(i).Type()}
		}
	}
	return nil
}

type protoGetterInfo struct {
	st  *types.Struct
	idx int
	ty  types.Type
}

func (tr *FnTrans) protoGetter(st *BState, cc *ssa.CallCommon, g *protoGetterInfo, recv Val) Val {
	ld := tr.load(st.heap, tr.fldAddr(recv.T, g.st, g.idx), g.ty, st.reach, true)
	srt := tr.smt.sortOf(g.ty)
	n := tr.smt.define("get_"+g.st.Field(g.idx).Name(), srt, fmt.Sprintf("(ite (= %s nil) %s %s)", recv.T, tr.smt.zero(g.ty), ld))
	if needsWF(g.ty, 0) {
		tr.wf(n, g.ty, st.reach, "getter")
	}
	return Val{T: n, Ty: g.ty}
}

func (e *Engine) newTrans(fn *ssa.Function, c *Contract) *FnTrans {
	frameEng = e
	intMode := c != nil && c.Arith == "int"
	name := fn.String()
	name = strings.TrimPrefix(name, "github.com/google/certificate-transparency-go/")
	name = strings.ReplaceAll(name, "github.com/google/certificate-transparency-go/", "")
	tr := &FnTrans{eng: e, fn: fn, c: c, smt: newSmt(e, intMode), name: name, oblCnt: map[string]int{},
		vals: map[ssa.Value]Val{}, in: map[*ssa.BasicBlock]*BState{}, out: map[*ssa.BasicBlock]*BState{},
		sites: map[ssa.CallInstruction]*Site{}, siteByAlias: map[string]*Site{}, siteDeclOf: map[ssa.CallInstruction][]string{},
		abstracted: map[string]int{}, usedSpecs: map[string]bool{}, lets: map[string]*Expr{}, siteInstr: map[string]ssa.CallInstruction{}, ghostSites: map[string]*Site{}, loopInfo: map[int]string{},
		closures: map[string]*ssa.MakeClosure{}, storeSites: map[*ssa.Store][]string{}, eventSites: map[eventKey][]string{}, rangeVisited: map[*ssa.Range]string{}, rangeDom0: map[*ssa.Range]string{}, eventAliases: map[string]bool{}, usedGlobalInvs: map[string]Clause{}, heapAnc: map[string][]*frameFact{}, baseAC: map[string]string{}, heapBases: map[string][]string{}, baseDone: map[string]bool{}, frameDone: map[string]bool{}, escCache: map[*ssa.Alloc]bool{}, autoInvs: map[*ssa.BasicBlock]func(string, int) string{}, autoPhis: map[*ssa.BasicBlock][]*ssa.Phi{}, ifaceTests: map[string]types.Type{}}
	if c != nil {
		tr.props = c.Props
	}
	tr.smt.onFreshHeap = func(n, ac string) {
		if ac == "" {
			ac = "ac0"
		}
		tr.baseAC[n] = ac
		tr.heapBases[n] = []string{n}
	}
	tr.smt.onDerive = func(n string, from []string) {
		{
			var bs []string
			seenB := map[string]bool{}
			for _, f := range from {
				for _, b := range tr.heapBases[f] {
					if !seenB[b] {
						seenB[b] = true
						bs = append(bs, b)
					}
				}
			}
			if len(bs) > 0 {
				tr.heapBases[n] = bs
			}
		}
		var anc []*frameFact
		seen := map[*frameFact]bool{}
		for _, f := range from {
			for _, a := range tr.heapAnc[f] {
				if !seen[a] {
					seen[a] = true
					anc = append(anc, a)
				}
			}
		}
		if len(anc) > 0 {
			tr.heapAnc[n] = anc
		}
	}
	return tr
}

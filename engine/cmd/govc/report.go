package main

import (
	"bufio"
	"encoding/json"
	"fmt"
	"os"
	"os/exec"
	"path/filepath"
	"regexp"
	"sort"
	"strings"
)

// ---------------------------------------------------------------- known findings

type knownFinding struct {
	Kind       string // open | fixed
	Property   string
	Obligation string // glob
	Region     string
	What       string
	Line       string
	used       bool
}

type knownFindings struct {
	entries []*knownFinding
}

var kvRe = regexp.MustCompile(`(\w+)=("([^"]*)"|\S+)`)

func loadKnownFindings(path string) *knownFindings {
	kf := &knownFindings{}
	f, err := os.Open(path)
	if err != nil {
		return kf
	}
	defer f.Close()
	sc := bufio.NewScanner(f)
	for sc.Scan() {
		l := strings.TrimSpace(sc.Text())
		if l == "" || strings.HasPrefix(l, "#") {
			continue
		}
		e := &knownFinding{Line: l}
		switch {
		case strings.HasPrefix(l, "open:"):
			e.Kind = "open"
		case strings.HasPrefix(l, "fixed:"):
			e.Kind = "fixed"
		default:
			continue
		}
		for _, m := range kvRe.FindAllStringSubmatch(l, -1) {
			v := m[2]
			if strings.HasPrefix(v, `"`) {
				v = m[3]
			}
			switch m[1] {
			case "property":
				e.Property = v
			case "obligation":
				e.Obligation = v
			case "region":
				e.Region = v
			case "what":
				e.What = v
			}
		}
		kf.entries = append(kf.entries, e)
	}
	return kf
}

func globMatch(pat, s string) bool {
	parts := strings.Split(pat, "*")
	if len(parts) == 1 {
		return pat == s
	}
	if !strings.HasPrefix(s, parts[0]) {
		return false
	}
	s = s[len(parts[0]):]
	for i := 1; i < len(parts)-1; i++ {
		j := strings.Index(s, parts[i])
		if j < 0 {
			return false
		}
		s = s[j+len(parts[i]):]
	}
	return strings.HasSuffix(s, parts[len(parts)-1])
}

func (kf *knownFindings) match(o *Obligation, prop string) *knownFinding {
	for _, e := range kf.entries {
		if e.Kind == "open" && e.Property == prop && globMatch(e.Obligation, o.Name) {
			return e
		}
	}
	return nil
}

// applyRegions adds, for every open finding with a region predicate, a second obligation that must
// hold outside the region, so that any other failing input is still a violation.
func (kf *knownFindings) applyRegions(obls []*Obligation, prop string) {
}

// ---------------------------------------------------------------- result

type checkResult struct {
	Property                    string
	Tier                        string
	Seed                        int
	Reports                     []*fnReport
	Obls                        []*Obligation
	Broken                      bool
	Known                       []string
	Violations                  []*Obligation
	Vacuous                     []*Obligation
	Errors                      []*Obligation
	LoadS, SolveS, WallS        float64
	eng                         *Engine
	kf                          *knownFindings
	Lines                       []string
	MutantsKilled, MutantsTotal int
}

func summarize(o *checkOpts, eng *Engine, reports []*fnReport, obls []*Obligation, kf *knownFindings, broken bool) *checkResult {
	r := &checkResult{Property: o.property, Tier: o.tier, Seed: o.seed, Reports: reports, Obls: obls, Broken: broken, eng: eng, kf: kf}
	for _, ob := range obls {
		switch ob.Status {
		case "failed":
			if e := kf.match(ob, o.property); e != nil {
				e.used = true
				ob.Region = "known"
				r.Known = append(r.Known, fmt.Sprintf("KNOWN-FINDING: property=%s %s [%s]", o.property, e.What, ob.Name))
			} else {
				r.Violations = append(r.Violations, ob)
			}
		case "vacuous":
			if ob.Kind == "cover@return" && ob.Answer == "unsat" {
				// a return statement that can no longer be reached under the contract: on the unchanged
				// tree every such cover is satisfiable, so this is an obligation that passed and now
				// fails (an error path or an arm of the code has gone dead). Reported as a violation;
				// an unsatisfiable precondition (pre-sat) stays an engine error.
				ob.Clause = "this return statement is reachable under the contract (it was on the unchanged tree): " + ob.Clause
				r.Violations = append(r.Violations, ob)
			} else {
				r.Vacuous = append(r.Vacuous, ob)
			}
		case "error":
			r.Errors = append(r.Errors, ob)
		}
	}
	return r
}

func (r *checkResult) report(o *checkOpts) int {
	nProof, nDis, nCover := 0, 0, 0
	for _, ob := range r.Obls {
		if ob.Expect == "unsat" {
			nProof++
			if ob.Status == "discharged" {
				nDis++
			}
		} else {
			nCover++
		}
		if o.verbose {
			fmt.Printf("  %-12s %-8s %-7s %6.2fs %s\n", ob.Status, ob.Answer, ob.Solver, ob.TimeS, ob.Name)
		}
	}
	for _, rep := range r.Reports {
		if rep.err == nil && o.verbose {
			for _, n := range rep.tr.notes {
				fmt.Printf("  note %s: %s\n", rep.tr.name, n)
			}
		}
	}
	fmt.Printf("property %s tier %s: %d functions under contract, %d proof obligations, %d discharged, %d vacuity guards (load %.1fs, solve %.1fs)\n",
		r.Property, r.Tier, len(r.Reports), nProof, nDis, nCover, r.LoadS, r.SolveS)
	seenK := map[string]bool{}
	for _, k := range r.Known {
		// one line per finding entry
		key := k[:strings.LastIndex(k, " [")]
		if !seenK[key] {
			seenK[key] = true
			fmt.Println(key)
		}
	}
	for _, ob := range r.Vacuous {
		fmt.Printf("VACUOUS %s (%s): contract or assumptions contradict on this path\n", ob.Name, ob.Clause)
	}
	for _, ob := range r.Errors {
		fmt.Printf("SOLVER-ERROR %s: %s\n", ob.Name, trunc(ob.Model, 300))
	}
	if len(r.Violations) > 0 {
		replayDir := filepath.Join(o.verif, "replays")
		os.MkdirAll(replayDir, 0o755)
		for _, ob := range r.Violations {
			path := filepath.Join(replayDir, fmt.Sprintf("%s-%s.json", r.Property, sanitize(ob.Name)))
			confirmed := writeReplay(o, r, ob, path)
			suffix := ""
			if !confirmed {
				suffix = " no-failing-input-found"
			}
			fmt.Printf("FAILED-OBLIGATION %s [%s/%s] %s at %s\n", ob.Name, ob.Answer, ob.Solver, trunc(ob.Clause, 160), ob.Pos)
			fmt.Printf("VIOLATION property=%s replay=%s%s\n", r.Property, path, suffix)
		}
	}
	if r.Broken || len(r.Vacuous) > 0 || len(r.Errors) > 0 || nProof == 0 {
		if nProof == 0 {
			fmt.Println("ENGINE-ERROR no proof obligations were generated")
		}
		if len(r.Violations) > 0 {
			return 1
		}
		return 2
	}
	if len(r.Violations) > 0 {
		return 1
	}
	return 0
}

// ---------------------------------------------------------------- evidence

func toolVersion(bin string, args ...string) string {
	out, err := exec.Command(bin, args...).CombinedOutput()
	if err != nil && len(out) == 0 {
		return bin + ": unavailable"
	}
	return strings.TrimSpace(strings.SplitN(string(out), "\n", 2)[0])
}

func (r *checkResult) writeEvidence(o *checkOpts) error {
	type fnEv struct {
		Func        string            `json:"func"`
		File        string            `json:"file"`
		Mode        string            `json:"mode"`
		Obligations int               `json:"obligations"`
		Discharged  int               `json:"discharged"`
		Abstracted  map[string]int    `json:"abstracted_calls,omitempty"`
		Loops       map[string]string `json:"loops,omitempty"`
		Termination string            `json:"termination"`
		Notes       []string          `json:"notes,omitempty"`
	}
	var fns []fnEv
	trusted := map[string]bool{}
	nProof, nDis, nCover, nCoverOK := 0, 0, 0, 0
	byBackend := map[string]int{}
	solverTime := 0.0
	perFn := map[string]*fnEv{}
	for _, rep := range r.Reports {
		tr := rep.tr
		mode := "bv"
		if tr.smt.intMode {
			mode = "int"
		}
		if tr.fn == nil {
			continue
		}
		pos := tr.fn.Prog.Fset.Position(tr.fn.Pos())
		fe := &fnEv{Func: tr.name, File: fmt.Sprintf("%s:%d", pos.Filename, pos.Line), Mode: mode, Abstracted: tr.abstracted, Loops: map[string]string{}, Termination: "not-proved", Notes: tr.notes}
		for k, v := range tr.loopInfo {
			fe.Loops[fmt.Sprint(k)] = v
		}
		if len(tr.loopOf) == 0 {
			fe.Termination = "loop-free (callees assumed to return)"
		}
		perFn[tr.name] = fe
		for s := range tr.usedSpecs {
			trusted[s] = true
		}
		for a := range tr.abstracted {
			trusted["abstracted callee (unconstrained results, reachable memory havocked): "+a] = true
		}
	}
	type slow struct {
		Name string  `json:"name"`
		S    float64 `json:"s"`
		By   string  `json:"solver"`
	}
	var slowest []slow
	secondPass := []string{}
	var samples []interface{}
	var knownObls []string
	for _, ob := range r.Obls {
		solverTime += ob.TimeS
		if ob.Expect == "unsat" && ob.Region == "known" {
			// an obligation that fails because of a recorded open finding: reported as a known
			// finding, not part of what this run claims to have proved
			knownObls = append(knownObls, ob.Name)
			slowest = append(slowest, slow{ob.Name, ob.TimeS, ob.Solver})
			continue
		}
		if ob.Expect == "unsat" {
			nProof++
			if fe := perFn[ob.Fn]; fe != nil {
				fe.Obligations++
			}
			if ob.Status == "discharged" {
				nDis++
				byBackend[ob.Solver]++
				if fe := perFn[ob.Fn]; fe != nil {
					fe.Discharged++
				}
			}
		} else {
			nCover++
			if ob.Status == "cover-ok" {
				nCoverOK++
			}
		}
		slowest = append(slowest, slow{ob.Name, ob.TimeS, ob.Solver})
		if ob.SecondPass && ob.Status == "discharged" {
			secondPass = append(secondPass, ob.Name)
		}
	}
	sort.Slice(slowest, func(i, j int) bool { return slowest[i].S > slowest[j].S })
	if len(slowest) > 5 {
		slowest = slowest[:5]
	}
	// samples: a few obligations written out, one with its SMT text
	step := len(r.Obls)/4 + 1
	for i := 0; i < len(r.Obls) && len(samples) < 4; i += step {
		ob := r.Obls[i]
		s := map[string]interface{}{"obligation": ob.Name, "kind": ob.Kind, "clause": trunc(ob.Clause, 300), "at": ob.Pos, "answer": ob.Answer, "solver": ob.Solver, "smt_bytes": ob.SmtSize, "status": ob.Status}
		if len(samples) == 0 && ob.tr != nil {
			s["smt_text_head"] = trunc2(ob.tr.text(ob), 3000)
		}
		samples = append(samples, s)
	}
	var names []string
	for n := range perFn {
		names = append(names, n)
	}
	sort.Strings(names)
	for _, n := range names {
		fns = append(fns, *perFn[n])
	}
	var tb []string
	for s := range trusted {
		tb = append(tb, s)
	}
	sort.Strings(tb)
	tb = append(tb,
		"go/types + go/ssa (golang.org/x/tools v0.29.0) lower the source faithfully; govc SSA->SMT translation",
		toolVersion("z3-new", "--version"), toolVersion("cvc5", "--version"), toolVersion("z3", "--version"),
		"pure-callee list /verif/contracts/assumed/*.spec: logging, metrics, formatting and sync primitives do not modify memory the proof reads")
	var known []string
	known = append(known, r.Known...)
	var viol []string
	for _, v := range r.Violations {
		viol = append(viol, v.Name)
	}
	cov := map[string]interface{}{
		"obligations":                 nProof,
		"discharged":                  nDis,
		"checker_cmd":                 fmt.Sprintf("/verif/bin/govc check --property %s --tier %s (per obligation: z3-new 2s, then race z3-new/cvc5/z3 with %ds timeout; obligations still undecided are re-run four at a time with %ds)", r.Property, r.Tier, o.timeout, 4*o.timeout),
		"decided_only_in_second_pass": secondPass,
		"trusted_base":                tb,
		"functions_under_contract":    fns,
		"by_backend":                  byBackend,
		"solver_time_s":               round2(solverTime),
		"slowest":                     slowest,
		"vacuity":                     map[string]interface{}{"cover_and_presat_obligations": nCover, "satisfiable": nCoverOK, "must_fail_mutants_rejected": r.MutantsKilled, "must_fail_mutants_total": r.MutantsTotal},
		"samples":                     samples,
		"known_findings":              known,
		"obligations_failing_as_recorded_open_findings": knownObls,
		"failed_obligations":                            viol,
		"not_decided":                                   notDecided[r.Property],
		"bounded_standins":                              []string{},
	}
	ev := map[string]interface{}{
		"property_id": r.Property,
		"tier":        r.Tier,
		"seed":        r.Seed,
		"level":       "proof",
		"coverage":    cov,
		"assumptions": globalAssumptions,
		"wall_s":      round2(r.WallS),
		"violations":  len(r.Violations),
	}
	dir := filepath.Join(o.verif, "evidence")
	if err := os.MkdirAll(dir, 0o755); err != nil {
		return err
	}
	b, err := json.MarshalIndent(ev, "", " ")
	if err != nil {
		return err
	}
	return os.WriteFile(filepath.Join(dir, r.Property+".json"), append(b, '\n'), 0o644)
}

func round2(x float64) float64 { return float64(int(x*100+0.5)) / 100 }

func trunc2(s string, n int) string {
	if len(s) > n {
		return s[:n] + "\n...[truncated]"
	}
	return s
}

var globalAssumptions = []string{
	"go/types and go/ssa (x/tools v0.29.0) lower the source faithfully; the govc SSA->SMT translation is correct (guarded by covers, pre-sat checks and the must-fail corpus in /verif/selftest)",
	"cvc5 1.0.x / z3 5.1.0 / z3 4.8.12 are sound when they answer unsat",
	"Go is type- and memory-safe where unsafe is not used; slice lengths and capacities are bounded by 2^48 (runtime allocation limit on linux/amd64)",
	"callees without a contract are abstracted: unconstrained results, every heap cell reachable by type from their arguments havocked; callees on the pure list do not modify memory",
	"assumed contracts in /verif/contracts/assumed/*.spec (listed per run under trusted_base when used)",
	"concurrency is not reasoned about: functions are verified as sequential code; sync primitives are no-ops",
	"termination is not proved (partial correctness); callees are assumed to return",
	"machine arithmetic is exact in arith bv mode (bit-vectors); arith int mode discharges an overflow obligation per operation",
}

var notDecided = map[string]string{}

// ---------------------------------------------------------------- replay files

func writeReplay(o *checkOpts, r *checkResult, ob *Obligation, path string) bool {
	rep := map[string]interface{}{
		"property":   r.Property,
		"obligation": ob.Name,
		"kind":       ob.Kind,
		"clause":     ob.Clause,
		"at":         ob.Pos,
		"answer":     ob.Answer,
		"solver":     ob.Solver,
		"time_s":     ob.TimeS,
		"model":      modelSummary(ob),
	}
	confirmed := false
	if ob.Answer == "sat" && ob.tr != nil && !o.noReplay {
		if rr := tryReplay(o, ob); rr != nil {
			rep["replay"] = rr
			confirmed = rr.Confirmed
		}
	}
	if !confirmed {
		rep["note"] = "no-failing-input-found: the obligation is not discharged on this tree; solver output attached"
		rep["solver_output"] = trunc2(ob.Model, 6000)
	}
	b, _ := json.MarshalIndent(rep, "", " ")
	os.WriteFile(path, append(b, '\n'), 0o644)
	return confirmed
}

package main

// Counterexample replay: the solver's model is turned into concrete inputs of a per-function
// Go test template (under /verif/replay), injected into the real package with `go test -overlay`.
// The real function is run on those inputs; the violation is confirmed when the real outputs are
// the ones the model predicted (for postconditions) or when the real code panics (for safety).

import (
	"bufio"
	"context"
	"encoding/json"
	"fmt"
	"math/big"
	"os"
	"os/exec"
	"path/filepath"
	"regexp"
	"strings"
	"time"
)

type rtValue struct {
	Name string
	Type string
	Expr *Expr
	Src  string
}

type replayTemplate struct {
	Func  string
	Pkg   string
	Ins   []rtValue
	Outs  []rtValue
	Small []*Expr // extra constraints asked of the solver so that the counterexample is small enough to replay
	Body  string
	Path  string
	Only  []string // when set: the template replays only obligations whose name contains one of these
}

func loadReplayTemplates(dir string) map[string]*replayTemplate {
	out := map[string]*replayTemplate{}
	files, _ := filepath.Glob(filepath.Join(dir, "*.rt"))
	for _, p := range files {
		f, err := os.Open(p)
		if err != nil {
			continue
		}
		rt := &replayTemplate{Path: p}
		sc := bufio.NewScanner(f)
		sc.Buffer(make([]byte, 1<<20), 1<<20)
		inBody := false
		var body strings.Builder
		for sc.Scan() {
			l := sc.Text()
			if inBody {
				body.WriteString(l)
				body.WriteByte('\n')
				continue
			}
			t := strings.TrimSpace(l)
			switch {
			case t == "---":
				inBody = true
			case strings.HasPrefix(t, "#func "):
				rt.Func = strings.TrimSpace(t[6:])
			case strings.HasPrefix(t, "#only "):
				rt.Only = append(rt.Only, strings.TrimSpace(t[6:]))
			case strings.HasPrefix(t, "#pkg "):
				rt.Pkg = strings.TrimSpace(t[5:])
			case strings.HasPrefix(t, "#small "):
				if ex, err := parseExpr(strings.TrimSpace(t[7:])); err == nil {
					rt.Small = append(rt.Small, ex)
				} else {
					fmt.Fprintf(os.Stderr, "govc: replay template %s: %v\n", p, err)
				}
			case strings.HasPrefix(t, "#in "), strings.HasPrefix(t, "#out "):
				isIn := strings.HasPrefix(t, "#in ")
				rest := strings.TrimSpace(t[4:])
				if !isIn {
					rest = strings.TrimSpace(t[5:])
				}
				eq := strings.Index(rest, "=")
				if eq < 0 {
					continue
				}
				hd := strings.Fields(rest[:eq])
				if len(hd) != 2 {
					continue
				}
				ex, err := parseExpr(strings.TrimSpace(rest[eq+1:]))
				if err != nil {
					fmt.Fprintf(os.Stderr, "govc: replay template %s: %v\n", p, err)
					continue
				}
				v := rtValue{Name: hd[0], Type: hd[1], Expr: ex, Src: strings.TrimSpace(rest[eq+1:])}
				if isIn {
					rt.Ins = append(rt.Ins, v)
				} else {
					rt.Outs = append(rt.Outs, v)
				}
			}
		}
		f.Close()
		rt.Body = body.String()
		if rt.Func != "" {
			out[rt.Func] = rt
		}
	}
	return out
}

const maxReplayBytes = 48

// replayTerms evaluates the template's value expressions in the obligation's environment and
// returns the SMT terms to query with get-value.
func (tr *FnTrans) replayTerms(o *Obligation, rt *replayTemplate) (terms []string, keys []string) {
	if o.env == nil {
		return nil, nil
	}
	add := func(key, term string) {
		terms = append(terms, term)
		keys = append(keys, key)
	}
	evalV := func(v rtValue, prefix string) (ok bool) {
		defer func() {
			if r := recover(); r != nil {
				ok = false
			}
		}()
		val := o.env.eval(v.Expr)
		if val.Const != nil {
			val = o.env.coerce(val, intT)
		}
		switch v.Type {
		case "bytes":
			if !isSliceT(val.Ty) {
				return false
			}
			add(prefix+v.Name+".len", fmt.Sprintf("(slen %s)", val.T))
			add(prefix+v.Name+".nil", fmt.Sprintf("(= (sbase %s) nil)", val.T))
			h := o.env.heap.lookup(tr.smt.intSortW(8))
			for i := 0; i < maxReplayBytes; i++ {
				add(fmt.Sprintf("%s%s[%d]", prefix, v.Name, i), fmt.Sprintf("(select %s (elem (sbase %s) %s))", h, val.T, tr.ivAdd(fmt.Sprintf("(soff %s)", val.T), tr.lit64(int64(i)))))
			}
		default:
			add(prefix+v.Name, val.T)
		}
		return true
	}
	for _, v := range rt.Ins {
		if !evalV(v, "in.") {
			return nil, nil
		}
	}
	for _, sx := range rt.Small {
		func() {
			defer func() { recover() }()
			o.smallTerms = append(o.smallTerms, o.env.evalBool(sx))
		}()
	}
	if strings.HasPrefix(o.Kind, "ensures") || strings.HasPrefix(o.Kind, "site-assert") {
		for _, v := range rt.Outs {
			evalV(v, "out.")
		}
	}
	return terms, keys
}

// ---------------------------------------------------------------- s-expressions

type sx struct {
	atom string
	list []*sx
}

func parseSx(s string) []*sx {
	var stack [][]*sx
	cur := []*sx{}
	i := 0
	for i < len(s) {
		c := s[i]
		switch {
		case c == '(':
			stack = append(stack, cur)
			cur = []*sx{}
			i++
		case c == ')':
			if len(stack) == 0 {
				return cur
			}
			n := &sx{list: cur}
			cur = stack[len(stack)-1]
			stack = stack[:len(stack)-1]
			cur = append(cur, n)
			i++
		case c == ' ' || c == '\n' || c == '\t' || c == '\r':
			i++
		case c == ';':
			for i < len(s) && s[i] != '\n' {
				i++
			}
		case c == '"':
			j := i + 1
			for j < len(s) && s[j] != '"' {
				j++
			}
			cur = append(cur, &sx{atom: s[i:min(j+1, len(s))]})
			i = j + 1
		case c == '|':
			j := i + 1
			for j < len(s) && s[j] != '|' {
				j++
			}
			cur = append(cur, &sx{atom: s[i:min(j+1, len(s))]})
			i = j + 1
		default:
			j := i
			for j < len(s) && !strings.ContainsRune("() \n\t\r", rune(s[j])) {
				j++
			}
			cur = append(cur, &sx{atom: s[i:j]})
			i = j
		}
	}
	return cur
}

func (x *sx) String() string {
	if x.list == nil {
		return x.atom
	}
	var ps []string
	for _, c := range x.list {
		ps = append(ps, c.String())
	}
	return "(" + strings.Join(ps, " ") + ")"
}

// bvValue decodes #x.., #b.., (_ bvN w) and integer literals; returns value and width (0 for Int).
func bvValue(x *sx) (*big.Int, int, bool) {
	if x.list == nil {
		a := x.atom
		switch {
		case strings.HasPrefix(a, "#x"):
			v, ok := new(big.Int).SetString(a[2:], 16)
			return v, 4 * (len(a) - 2), ok
		case strings.HasPrefix(a, "#b"):
			v, ok := new(big.Int).SetString(a[2:], 2)
			return v, len(a) - 2, ok
		default:
			v, ok := new(big.Int).SetString(a, 10)
			return v, 0, ok
		}
	}
	if len(x.list) == 3 && x.list[0].atom == "_" && strings.HasPrefix(x.list[1].atom, "bv") {
		v, ok := new(big.Int).SetString(x.list[1].atom[2:], 10)
		var w int
		fmt.Sscan(x.list[2].atom, &w)
		return v, w, ok
	}
	if len(x.list) == 2 && x.list[0].atom == "-" {
		v, _, ok := bvValue(x.list[1])
		if ok {
			return new(big.Int).Neg(v), 0, true
		}
	}
	return nil, 0, false
}

func renderValue(x *sx, typ string) (string, bool) {
	switch typ {
	case "bool":
		if x.atom == "true" || x.atom == "false" {
			return x.atom, true
		}
		return "", false
	}
	v, w, ok := bvValue(x)
	if !ok {
		return "", false
	}
	signed := strings.HasPrefix(typ, "int")
	if signed && w > 0 && v.Bit(w-1) == 1 {
		v = new(big.Int).Sub(v, new(big.Int).Lsh(big.NewInt(1), uint(w)))
	}
	return v.String(), true
}

// parseGetValue parses "((term value) ...)" into values in order.
func parseGetValue(out string) []*sx {
	i := strings.Index(out, "((")
	if i < 0 {
		return nil
	}
	xs := parseSx(out[i:])
	if len(xs) == 0 || xs[0].list == nil {
		return nil
	}
	var vals []*sx
	for _, p := range xs[0].list {
		if len(p.list) == 2 {
			vals = append(vals, p.list[1])
		} else {
			vals = append(vals, &sx{atom: "?"})
		}
	}
	return vals
}

// ---------------------------------------------------------------- running a replay

var outRe = regexp.MustCompile(`(\w+)=(\S+)`)

func tryReplay(o *checkOpts, ob *Obligation) *replayResult {
	if ob.rt == nil || len(ob.valueKeys) == 0 {
		return nil
	}
	if len(ob.rt.Only) > 0 {
		match := false
		for _, sub := range ob.rt.Only {
			if strings.Contains(ob.Name, sub) {
				match = true
			}
		}
		if !match {
			return nil
		}
	}
	if len(ob.smallTerms) > 0 && ob.tr != nil {
		// ask for a small counterexample of the same obligation
		txt := ob.tr.textWith(ob, ob.smallTerms)
		if dir, err := os.MkdirTemp("", "govc-small-"); err == nil {
			f := filepath.Join(dir, "small.smt2")
			os.WriteFile(f, []byte(txt), 0o644)
			r := solveOne(f, 20, o.seed, "")
			os.RemoveAll(dir)
			if r.answer == "sat" && len(parseGetValue(r.model)) == len(ob.valueKeys) {
				ob.Model = r.model
			}
		}
	}
	vals := parseGetValue(ob.Model)
	if len(vals) != len(ob.valueKeys) {
		return &replayResult{Output: "could not read the model values from the solver output"}
	}
	byKey := map[string]*sx{}
	for i, k := range ob.valueKeys {
		byKey[k] = vals[i]
	}
	rt := ob.rt
	body := rt.Body
	var inputs []string
	for _, v := range rt.Ins {
		var lit string
		switch v.Type {
		case "bytes":
			ln, ok := renderValue(byKey["in."+v.Name+".len"], "int64")
			if !ok {
				return &replayResult{Output: "model length not concrete"}
			}
			var n int
			fmt.Sscan(ln, &n)
			if n < 0 || n > maxReplayBytes {
				return &replayResult{Output: fmt.Sprintf("model needs a %d-byte input; replay supports up to %d", n, maxReplayBytes)}
			}
			isNil := byKey["in."+v.Name+".nil"].atom == "true"
			var bs []string
			for i := 0; i < n; i++ {
				b, ok := renderValue(byKey[fmt.Sprintf("in.%s[%d]", v.Name, i)], "uint8")
				if !ok {
					b = "0"
				}
				bs = append(bs, b)
			}
			if isNil && n == 0 {
				lit = "[]byte(nil)"
			} else {
				lit = "[]byte{" + strings.Join(bs, ", ") + "}"
			}
		default:
			s, ok := renderValue(byKey["in."+v.Name], v.Type)
			if !ok {
				return &replayResult{Output: "model value for " + v.Name + " is not concrete: " + byKey["in."+v.Name].String()}
			}
			lit = s
		}
		body = strings.ReplaceAll(body, "{{"+v.Name+"}}", lit)
		inputs = append(inputs, v.Name+"="+lit)
	}
	res := &replayResult{Inputs: strings.Join(inputs, " "), Test: body}
	dir, err := os.MkdirTemp("", "govc-replay-")
	if err != nil {
		return res
	}
	defer os.RemoveAll(dir)
	testFile := filepath.Join(dir, "zz_govc_replay_test.go")
	os.WriteFile(testFile, []byte(body), 0o644)
	pkgDir := filepath.Join(o.repo, rt.Pkg)
	repl := map[string]string{filepath.Join(pkgDir, "zz_govc_replay_test.go"): testFile}
	k := 0
	for path, content := range o.overlay {
		k++
		mf := filepath.Join(dir, fmt.Sprintf("mutant%d.go", k))
		os.WriteFile(mf, content, 0o644)
		repl[path] = mf
	}
	ov := map[string]interface{}{"Replace": repl}
	ovb, _ := json.Marshal(ov)
	ovFile := filepath.Join(dir, "overlay.json")
	os.WriteFile(ovFile, ovb, 0o644)
	ctx, cancel := context.WithTimeout(context.Background(), 300*time.Second)
	defer cancel()
	cmd := exec.CommandContext(ctx, "go", "test", "-overlay", ovFile, "-vet=off", "-timeout", "60s", "-count=1", "-run", "^TestGovcReplay$", "-v", "./"+rt.Pkg)
	cmd.Dir = o.repo
	cmd.Env = append(os.Environ(), "GOFLAGS=-mod=mod", "GOPROXY=off", "GOSUMDB=off", "GOTOOLCHAIN=local")
	outB, _ := cmd.CombinedOutput()
	out := string(outB)
	res.Output = trunc2(out, 4000)
	if strings.HasPrefix(ob.Kind, "safety") || ob.Kind == "call-pre" {
		res.Confirmed = strings.Contains(out, "REPLAY-PANIC")
		return res
	}
	// compare real outputs with the outputs the model predicts
	var line string
	for _, l := range strings.Split(out, "\n") {
		if strings.HasPrefix(strings.TrimSpace(l), "OUT ") {
			line = strings.TrimSpace(l)
		}
	}
	if line == "" {
		return res
	}
	real := map[string]string{}
	for _, m := range outRe.FindAllStringSubmatch(line[4:], -1) {
		real[m[1]] = m[2]
	}
	all := len(rt.Outs) > 0
	var cmp []string
	for _, v := range rt.Outs {
		mv, ok := byKey["out."+v.Name]
		if !ok {
			all = false
			continue
		}
		want, ok := renderValue(mv, v.Type)
		if !ok {
			all = false
			continue
		}
		cmp = append(cmp, fmt.Sprintf("%s: model=%s real=%s", v.Name, want, real[v.Name]))
		if real[v.Name] != want {
			all = false
		}
	}
	res.Output += "\ncomparison: " + strings.Join(cmp, "; ")
	res.Confirmed = all
	return res
}

package main

// Parsing of //@ contract blocks from comment-only files.

import (
	"bufio"
	"fmt"
	"os"
	"path/filepath"
	"sort"
	"strconv"
	"strings"
)

type Clause struct {
	E    *Expr
	Src  string
	File string
	Line int
	Name string // optional label:  //@ ensures [label] expr
}

type SiteDecl struct {
	Pattern string
	K       int
	Alias   string
	Only    bool // `site P#1 as a only`: no other call in the function matches P and this one is not in a loop
}

type SiteAssert struct {
	Alias  string
	C      Clause
	After  bool // evaluated after the call returns (results available) instead of before
	Assume bool // a ghost definition: assumed, not proved (listed in the trusted base)
}

type LoopSpec struct {
	Invariants  []Clause
	StepAsserts []Clause // checked at the end of every iteration (may speak about this iteration's call sites)
	Unroll      int
}

type Contract struct {
	Func         string
	File         string
	Line         int
	Props        []string
	Arith        string
	Pure         bool
	Assumed      bool
	MayPanic     bool
	NoBody       bool // contract used at call sites only; body not verified (must be listed as trusted)
	Sites        []SiteDecl
	Requires     []Clause
	Ensures      []Clause
	Asserts      []SiteAssert
	Loops        map[int]*LoopSpec
	Dead         map[string]bool // "return#3", "block#5"
	Lets         []LetDecl
	Fresh        []string // results declared fresh (newly allocated) by an assumed contract
	Modifies     []Clause // expressions naming the cells a call may modify; nil+!Pure => everything reachable
	ModSet       bool
	Notes        []string
	IsInit       bool     // the synthetic contract of a package initializer (init-establishes)
	Invokes      []string // function-typed parameters the (assumed) callee calls; last(p) / invoked(p) in its ensures refer to the last such call
	LoopFrames   bool     // (pure functions) memory that existed on entry keeps its contents through loops
	FrameTrusted string   // reason why the frame condition is trusted rather than checked syntactically
	Private      []string // local pointer variables whose pointee is reachable only through them (fresh, never handed on)
	StableFields []string // expr.field: a single field no function but the allocating one ever assigns
	Stable       []string // parameters (pointers to structs) whose own cells no callee modifies
}

type LetDecl struct {
	Name string
	C    Clause
}

type SpecFunc struct {
	Macro  bool // expanded at each use in the caller's state (may read the heap)
	Name   string
	Params []qvar
	Ret    string
	Body   *Expr // nil => uninterpreted
	Rec    bool
	File   string
	Line   int
}

type Lemma struct {
	Name  string
	Props []string
	C     Clause
	Arith string
}

// Decoded is an assumed postcondition of a decoder for a particular destination type:
//
//	//@ decoded MerkleTreeLeaf by tls.Unmarshal: v.TimestampedEntry != nil
//
// holds (when the decoder returns a nil error) for the object v points to.
type Decoded struct {
	Type   string
	Callee string
	C      Clause
	Dir    string
}

// Layout is the wire layout of one struct type, transcribed from the RFC's presentation-language
// definition: compared field by field with the struct's Go types and `tls` tags.
type Layout struct {
	Type   string
	Props  []string
	Fields []LayoutField
	File   string
	Line   int
	Dir    string
}

type LayoutField struct {
	Name string
	Wire string // uint8..uint64 | enum(N) | opaque<a..b> | opaque[N] | vector<a..b> of T | struct T | select(F=v) T
}

type ContractFile struct {
	Path       string
	Dir        string
	Contracts  []*Contract
	Specs      []*SpecFunc
	Lemmas     []*Lemma
	Decoded    []*Decoded
	Layouts    []*Layout
	GlobalInvs []Clause // facts about package-level variables established by package initialisation and never changed
	InitInvs   []Clause // the global invariants that are also proved on the package initializer (`init-establishes`)
}

func parseClause(s, file string, line int) (Clause, error) {
	s = strings.TrimSpace(s)
	name := ""
	if strings.HasPrefix(s, "[") {
		if i := strings.Index(s, "]"); i > 0 {
			name = s[1:i]
			s = strings.TrimSpace(s[i+1:])
		}
	}
	e, err := parseExpr(s)
	if err != nil {
		return Clause{}, fmt.Errorf("%s:%d: %v", file, line, err)
	}
	return Clause{E: e, Src: s, File: file, Line: line, Name: name}, nil
}

// parseParams parses "(a T, b U)" into qvars.
func parseParams(s string) ([]qvar, error) {
	s = strings.TrimSpace(s)
	if s == "" {
		return nil, nil
	}
	var out []qvar
	for _, part := range strings.Split(s, ",") {
		f := strings.Fields(part)
		if len(f) != 2 {
			return nil, fmt.Errorf("bad parameter %q", part)
		}
		out = append(out, qvar{f[0], f[1]})
	}
	return out, nil
}

func parseContractFile(path string) (*ContractFile, error) {
	f, err := os.Open(path)
	if err != nil {
		return nil, err
	}
	defer f.Close()
	cf := &ContractFile{Path: path, Dir: filepath.Dir(path)}
	var cur *Contract
	sc := bufio.NewScanner(f)
	sc.Buffer(make([]byte, 1<<20), 1<<20)
	type rawLine struct {
		text string
		line int
	}
	var lines []rawLine
	ln := 0
	for sc.Scan() {
		ln++
		t := strings.TrimSpace(sc.Text())
		if strings.HasPrefix(t, "//@+") {
			if len(lines) == 0 {
				return nil, fmt.Errorf("%s:%d: continuation without clause", path, ln)
			}
			lines[len(lines)-1].text += " " + strings.TrimSpace(t[4:])
			continue
		}
		if !strings.HasPrefix(t, "//@") {
			continue
		}
		lines = append(lines, rawLine{strings.TrimSpace(t[3:]), ln})
	}
	for _, rl := range lines {
		t, ln := rl.text, rl.line
		if t == "" {
			continue
		}
		kw := t
		rest := ""
		if i := strings.IndexAny(t, " \t"); i > 0 {
			kw, rest = t[:i], strings.TrimSpace(t[i+1:])
		}
		fail := func(format string, a ...interface{}) error {
			return fmt.Errorf("%s:%d: %s", path, ln, fmt.Sprintf(format, a...))
		}
		switch kw {
		case "func":
			cur = &Contract{Func: rest, File: path, Line: ln, Loops: map[int]*LoopSpec{}, Dead: map[string]bool{}}
			cf.Contracts = append(cf.Contracts, cur)
			continue
		case "uf", "spec", "macro":
			// uf name(a T, b U) R
			// spec [rec] name(a T, b U) R = body
			rec := false
			if kw == "spec" && strings.HasPrefix(rest, "rec ") {
				rec = true
				rest = strings.TrimSpace(rest[4:])
			}
			lp := strings.Index(rest, "(")
			rp := strings.Index(rest, ")")
			if lp < 0 || rp < lp {
				return nil, fail("bad %s declaration", kw)
			}
			ps, err := parseParams(rest[lp+1 : rp])
			if err != nil {
				return nil, fail("%v", err)
			}
			sf := &SpecFunc{Name: strings.TrimSpace(rest[:lp]), Params: ps, Rec: rec, File: path, Line: ln}
			tail := strings.TrimSpace(rest[rp+1:])
			if kw == "macro" {
				sf.Macro = true
			}
			if kw == "uf" {
				sf.Ret = tail
			} else {
				eq := strings.Index(tail, "=")
				if eq < 0 {
					return nil, fail("spec needs '= body'")
				}
				sf.Ret = strings.TrimSpace(tail[:eq])
				b, err := parseExpr(strings.TrimSpace(tail[eq+1:]))
				if err != nil {
					return nil, fail("%v", err)
				}
				sf.Body = b
			}
			cf.Specs = append(cf.Specs, sf)
			cur = nil
			continue
		case "global-invariant", "init-establishes":
			c, err := parseClause(rest, path, ln)
			if err != nil {
				return nil, err
			}
			cf.GlobalInvs = append(cf.GlobalInvs, c)
			if kw == "init-establishes" {
				cf.InitInvs = append(cf.InitInvs, c)
			}
			cur = nil
			continue
		case "decoded":
			ci := strings.Index(rest, ":")
			hd := strings.Fields(rest[:max(ci, 0)])
			if ci < 0 || len(hd) != 3 || hd[1] != "by" {
				return nil, fail("syntax: decoded Type by callee: expr")
			}
			c, err := parseClause(rest[ci+1:], path, ln)
			if err != nil {
				return nil, err
			}
			cf.Decoded = append(cf.Decoded, &Decoded{Type: hd[0], Callee: hd[2], C: c, Dir: cf.Dir})
			cur = nil
			continue
		case "layout":
			// layout TypeName C04 ...: Field wire; Field wire; ...
			ci := strings.Index(rest, ":")
			if ci < 0 {
				return nil, fail("layout needs ':'")
			}
			head := strings.Fields(rest[:ci])
			if len(head) == 0 {
				return nil, fail("layout needs a type name")
			}
			ly := &Layout{Type: head[0], Props: head[1:], File: path, Line: ln, Dir: cf.Dir}
			for _, part := range strings.Split(rest[ci+1:], ";") {
				part = strings.TrimSpace(part)
				if part == "" {
					continue
				}
				fs := strings.SplitN(part, " ", 2)
				if len(fs) != 2 {
					return nil, fail("layout field %q: want 'Field wire'", part)
				}
				ly.Fields = append(ly.Fields, LayoutField{Name: fs[0], Wire: strings.TrimSpace(fs[1])})
			}
			cf.Layouts = append(cf.Layouts, ly)
			cur = nil
			continue
		case "lemma":
			// lemma name [props C01 C02] [arith int]: expr
			ci := strings.Index(rest, ":")
			if ci < 0 {
				return nil, fail("lemma needs ':'")
			}
			head := strings.Fields(rest[:ci])
			if len(head) == 0 {
				return nil, fail("lemma needs a name")
			}
			lm := &Lemma{Name: head[0], Arith: "bv"}
			for i := 1; i < len(head); i++ {
				switch {
				case head[i] == "int" || head[i] == "bv":
					lm.Arith = head[i]
				case strings.HasPrefix(head[i], "C"):
					lm.Props = append(lm.Props, head[i])
				}
			}
			c, err := parseClause(rest[ci+1:], path, ln)
			if err != nil {
				return nil, err
			}
			lm.C = c
			cf.Lemmas = append(cf.Lemmas, lm)
			cur = nil
			continue
		}
		if cur == nil {
			return nil, fail("clause %q outside a func block", kw)
		}
		switch kw {
		case "props":
			cur.Props = append(cur.Props, strings.Fields(rest)...)
		case "arith":
			cur.Arith = rest
		case "pure":
			cur.Pure = true
		case "assumed":
			cur.Assumed = true
		case "nobody":
			cur.NoBody = true
		case "may":
			if rest == "panic" {
				cur.MayPanic = true
			} else {
				return nil, fail("unknown 'may %s'", rest)
			}
		case "note":
			cur.Notes = append(cur.Notes, rest)
		case "dead":
			for _, d := range strings.Fields(rest) {
				cur.Dead[d] = true
			}
		case "loop-frames":
			cur.LoopFrames = true
		case "frame-trusted":
			cur.FrameTrusted = rest
			if rest == "" {
				cur.FrameTrusted = "unspecified"
			}
		case "private":
			cur.Private = append(cur.Private, strings.Fields(rest)...)
		case "stable-field":
			cur.StableFields = append(cur.StableFields, strings.Fields(rest)...)
		case "stable":
			cur.Stable = append(cur.Stable, strings.Fields(rest)...)
		case "fresh":
			cur.Fresh = append(cur.Fresh, strings.Fields(rest)...)
		case "invokes":
			cur.Invokes = append(cur.Invokes, strings.Fields(rest)...)
		case "site":
			// site Pattern#k as alias
			fs := strings.Fields(rest)
			only := false
			if len(fs) == 4 && fs[3] == "only" {
				only = true
				fs = fs[:3]
			}
			if len(fs) != 3 || fs[1] != "as" {
				return nil, fail("site syntax: site Callee#k as alias [only]")
			}
			h := strings.LastIndex(fs[0], "#")
			if h < 0 {
				return nil, fail("site needs #k")
			}
			k, err := strconv.Atoi(fs[0][h+1:])
			if err != nil || k < 1 {
				return nil, fail("bad site ordinal")
			}
			cur.Sites = append(cur.Sites, SiteDecl{Pattern: fs[0][:h], K: k, Alias: fs[2], Only: only})
		case "requires", "ensures":
			c, err := parseClause(rest, path, ln)
			if err != nil {
				return nil, err
			}
			if kw == "requires" {
				cur.Requires = append(cur.Requires, c)
			} else {
				cur.Ensures = append(cur.Ensures, c)
			}
		case "modifies":
			cur.ModSet = true
			if rest != "nothing" {
				for _, part := range splitTopLevel(rest, ',') {
					c, err := parseClause(part, path, ln)
					if err != nil {
						return nil, err
					}
					cur.Modifies = append(cur.Modifies, c)
				}
			}
		case "let":
			eq := strings.Index(rest, "=")
			if eq < 0 {
				return nil, fail("let needs '='")
			}
			c, err := parseClause(rest[eq+1:], path, ln)
			if err != nil {
				return nil, err
			}
			cur.Lets = append(cur.Lets, LetDecl{Name: strings.TrimSpace(rest[:eq]), C: c})
		case "at", "after":
			// at alias assert expr
			fs := strings.SplitN(rest, " ", 3)
			if len(fs) != 3 || (fs[1] != "assert" && fs[1] != "define") {
				return nil, fail("syntax: at alias assert expr | after alias define expr")
			}
			c, err := parseClause(fs[2], path, ln)
			if err != nil {
				return nil, err
			}
			cur.Asserts = append(cur.Asserts, SiteAssert{Alias: fs[0], C: c, After: kw == "after", Assume: fs[1] == "define"})
		case "loop":
			fs := strings.SplitN(rest, " ", 3)
			if len(fs) != 3 {
				return nil, fail("syntax: loop k invariant expr | loop k unroll N")
			}
			k, err := strconv.Atoi(fs[0])
			if err != nil {
				return nil, fail("bad loop ordinal")
			}
			ls := cur.Loops[k]
			if ls == nil {
				ls = &LoopSpec{}
				cur.Loops[k] = ls
			}
			switch fs[1] {
			case "invariant":
				c, err := parseClause(fs[2], path, ln)
				if err != nil {
					return nil, err
				}
				ls.Invariants = append(ls.Invariants, c)
			case "step-assert":
				c, err := parseClause(fs[2], path, ln)
				if err != nil {
					return nil, err
				}
				ls.StepAsserts = append(ls.StepAsserts, c)
			case "unroll":
				// planned in DESIGN 2.x, never implemented: every loop is cut with an invariant; a
				// contract that asks for unrolling is refused rather than silently treated as cut
				return nil, fail("loop k unroll N is not implemented: give the loop an invariant")
			default:
				return nil, fail("unknown loop clause %q", fs[1])
			}
		default:
			return nil, fail("unknown clause keyword %q", kw)
		}
	}
	return cf, nil
}

func splitTopLevel(s string, sep byte) []string {
	var out []string
	depth := 0
	last := 0
	for i := 0; i < len(s); i++ {
		switch s[i] {
		case '(', '[':
			depth++
		case ')', ']':
			depth--
		default:
			if s[i] == sep && depth == 0 {
				out = append(out, s[last:i])
				last = i + 1
			}
		}
	}
	out = append(out, s[last:])
	return out
}

// findContractFiles returns every contracts_verif.go below root plus the
// assumed-spec files of the verification directory.
func findContractFiles(root string) ([]string, error) {
	var out []string
	err := filepath.Walk(root, func(p string, info os.FileInfo, err error) error {
		if err != nil {
			return nil
		}
		if info.IsDir() {
			b := filepath.Base(p)
			if b == ".git" || b == "testdata" || b == "node_modules" {
				return filepath.SkipDir
			}
			return nil
		}
		if filepath.Base(p) == "contracts_verif.go" {
			out = append(out, p)
		}
		return nil
	})
	sort.Strings(out)
	return out, err
}

package main

// Evaluation of contract expressions into SMT terms against a symbolic state.

import (
	"fmt"
	"go/constant"
	"go/token"
	"go/types"
	"math/big"
	"os"
	"sort"
	"strconv"
	"strings"

	"golang.org/x/tools/go/ssa"
)

type Env struct {
	tr          *FnTrans
	vars        map[string]Val
	override    map[string]Val
	heap        *Heap
	oldHeap     *Heap
	block       *ssa.BasicBlock // program point for local-name resolution (nil = entry)
	idx         int
	results     []Val
	resNames    []string
	atReturn    bool
	pkg         *types.Package
	imports     map[string]*types.Package
	quiet       bool
	own         bool             // evaluating the contract of the function being translated
	pol         int              // +1: must be proved, -1: may be used, 0: unknown
	lets        map[string]*Expr // abbreviations of the contract being evaluated (callee contracts at call sites)
	instOnly    []Val            // when set: instantiate quantified hypotheses with exactly these terms and drop the quantified original
	inQuant     bool
	bound       map[string]Val
	invoked     map[string]invokedFn
	entryParams bool                  // inside old(): parameter names denote entry values even where a loop variable of the same name exists
	visited     map[*ssa.Range]string // ghost state of range-over-map loops at this program point
	qvals       []Val                 // values of the enclosing quantifiers' bound variables (outermost first)
	altBlock    *ssa.BasicBlock       // second program point tried for local names (the call site of before/after)
	altIdx      int
}

type evalErr struct{ msg string }

// missingSiteErr: the clause speaks about a call that is no longer in the function. A goal that does
// so cannot be established (it fails); a hypothesis that does so contributes nothing.
type missingSiteErr struct{ callee string }

func (e *Env) fail(format string, a ...interface{}) {
	panic(evalErr{fmt.Sprintf(format, a...)})
}

func (tr *FnTrans) envAt(b *ssa.BasicBlock, idx int, heap, old *Heap) *Env {
	e := &Env{tr: tr, vars: map[string]Val{}, heap: heap, oldHeap: old, block: b, idx: idx, quiet: true, own: true}
	// ghost state is part of the program point the environment describes: a hypothesis that is
	// instantiated again later must still speak about the state it was assumed in
	if len(tr.rangeVisited) > 0 {
		e.visited = map[*ssa.Range]string{}
		for k, v := range tr.rangeVisited {
			e.visited[k] = v
		}
	}
	if tr.fn.Pkg != nil {
		e.pkg = tr.fn.Pkg.Pkg
	}
	if tr.c != nil {
		e.imports = tr.eng.importsOf(tr.c.File, e.pkg)
	}
	// named results
	if sig := tr.fn.Signature; sig != nil {
		for i := 0; i < sig.Results().Len(); i++ {
			n := sig.Results().At(i).Name()
			if n == "" || n == "_" {
				n = fmt.Sprintf("result%d", i)
				if sig.Results().Len() == 1 {
					e.resNames = append(e.resNames, "result")
					continue
				}
			}
			e.resNames = append(e.resNames, n)
		}
	}
	return e
}

// evalGoal evaluates a formula that has to be proved (universal quantifiers are skolemised).
func (e *Env) evalGoal(x *Expr) (goal string) {
	e2 := *e
	e2.pol = 1
	if e.tr != nil {
		was := e.tr.deferEx
		e.tr.deferEx = true
		nsk, ndef := len(e.tr.skolems), len(e.tr.deferredEx)
		defer func() {
			e.tr.deferEx = was
			// a clause of the function's own contract that cannot be evaluated against the code as it
			// is now (a variable it names is gone, is no longer addressable, has another type ...):
			// the obligation is reported as failed rather than the whole function as an engine error
			if r := recover(); r != nil {
				if u, ok := r.(unsupportedErr); ok && strings.HasPrefix(u.msg, "contract expression") {
					e.tr.skolems, e.tr.deferredEx = e.tr.skolems[:nsk], e.tr.deferredEx[:ndef]
					e.tr.inapplicable = u.msg
					goal = "false"
					return
				}
				panic(r)
			}
		}()
	}
	return e2.evalBool(x)
}

// evalHyp evaluates a formula that may be assumed (universal quantifiers are also instantiated).
func (e *Env) evalHyp(x *Expr) string {
	e2 := *e
	e2.pol = -1
	return e2.evalBool(x)
}

func (e *Env) withPol(p int) *Env {
	e2 := *e
	e2.pol = p
	return &e2
}

var macroTable map[string]*SpecFunc

// dropQuantified: hypotheses of the form forall x. P are replaced by their instances at the index
// terms known to the generator (sound: only weakens hypotheses); set GOVC_KEEPQ=1 to keep the original too.
var dropQuantified = os.Getenv("GOVC_KEEPQ") == ""

func hasQuant(x *Expr) bool {
	if x == nil {
		return false
	}
	if x.Op == "forall" || x.Op == "exists" {
		return true
	}
	if x.Op == "call" {
		if sf := macroTable[x.S]; sf != nil && sf.Macro && hasQuant(sf.Body) {
			return true
		}
	}
	for _, a := range x.A {
		if hasQuant(a) {
			return true
		}
	}
	return false
}

func (e *Env) evalBool(x *Expr) (out string) {
	defer func() {
		if r := recover(); r != nil {
			if _, ok := r.(missingSiteErr); ok {
				if e.pol > 0 {
					out = "false"
				} else {
					out = "true"
				}
				return
			}
			if ee, ok := r.(evalErr); ok {
				panic(unsupported(fmt.Sprintf("contract expression %q: %s", x.String(), ee.msg)))
			}
			panic(r)
		}
	}()
	v := e.eval(x)
	if e.tr.smt.sortOf(v.Ty) != "Bool" {
		e.fail("expression is not boolean")
	}
	return v.T
}

var boolT = types.Typ[types.Bool]
var intT = types.Typ[types.Int]

func (e *Env) typeByName(n string) types.Type {
	if strings.HasPrefix(n, "[]") {
		return types.NewSlice(e.typeByName(n[2:]))
	}
	if strings.HasPrefix(n, "*") {
		return types.NewPointer(e.typeByName(n[1:]))
	}
	if i := strings.Index(n, "."); i > 0 {
		if t := e.lookupType(&Expr{Op: "sel", S: n[i+1:], A: []*Expr{{Op: "id", S: n[:i]}}}); t != nil {
			return t
		}
	}
	switch n {
	case "wide":
		return tyWide
	case "mathint":
		return tyMath
	case "byte":
		return types.Typ[types.Uint8]
	case "Ref":
		return types.NewPointer(types.NewStruct(nil, nil))
	case "Slice", "bytes":
		return types.NewSlice(types.Typ[types.Uint8])
	case "error", "any":
		return types.Universe.Lookup("error").Type()
	}
	for _, b := range types.Typ {
		if b.Name() == n {
			return b
		}
	}
	if t := e.lookupType(&Expr{Op: "id", S: n}); t != nil {
		return t
	}
	e.fail("unknown type %q", n)
	return nil
}

// lookupType resolves a type expression:  T, pkg.T, *T, []T
func (e *Env) lookupType(x *Expr) types.Type {
	switch x.Op {
	case "id":
		if obj := types.Universe.Lookup(x.S); obj != nil {
			if tn, ok := obj.(*types.TypeName); ok {
				return tn.Type()
			}
		}
		if e.pkg != nil {
			if obj := e.pkg.Scope().Lookup(x.S); obj != nil {
				if tn, ok := obj.(*types.TypeName); ok {
					return tn.Type()
				}
			}
		}
	case "sel":
		if x.A[0].Op == "id" {
			if p := e.importByName(x.A[0].S); p != nil {
				if obj := p.Scope().Lookup(x.S); obj != nil {
					if tn, ok := obj.(*types.TypeName); ok {
						return tn.Type()
					}
				}
			}
			// several loaded packages share the name (the repo's storage/mysql and the driver's
			// mysql): take the one that declares the type; the import path order makes it deterministic
			var paths []string
			for path, p := range e.tr.eng.allPkgs {
				if p.Types != nil && p.Types.Name() == x.A[0].S {
					paths = append(paths, path)
				}
			}
			sort.Strings(paths)
			for _, path := range paths {
				if obj := e.tr.eng.allPkgs[path].Types.Scope().Lookup(x.S); obj != nil {
					if tn, ok := obj.(*types.TypeName); ok {
						return tn.Type()
					}
				}
			}
		}
	case "un":
		if x.S == "*" {
			if t := e.lookupType(x.A[0]); t != nil {
				return types.NewPointer(t)
			}
		}
	case "slicetype":
		if t := e.lookupType(x.A[0]); t != nil {
			return types.NewSlice(t)
		}
	}
	return nil
}

func (e *Env) importByName(n string) *types.Package {
	if p, ok := e.imports[n]; ok {
		return p
	}
	if e.pkg != nil {
		for _, p := range e.pkg.Imports() {
			if p.Name() == n {
				return p
			}
		}
	}
	if p := e.tr.eng.pkgByName(n); p != nil {
		return p
	}
	return nil
}

func (e *Env) intConst(v *big.Int) Val { return Val{Const: v} }

// coerce makes an untyped constant take the type of the other operand.
func (e *Env) coerce(v Val, to types.Type) Val {
	if v.Const == nil {
		return v
	}
	if to == nil {
		to = intT
	}
	if to == tyMath {
		if v.Const.Sign() < 0 {
			return Val{T: fmt.Sprintf("(- %s)", new(big.Int).Neg(v.Const).String()), Ty: to}
		}
		return Val{T: v.Const.String(), Ty: to}
	}
	if e.tr.smt.sortOf(to) == "F64" {
		// an integer literal compared with a floating-point value (w > 0): floats are reals in the model
		e.tr.floatUsed = true
		if v.Const.Sign() < 0 {
			return Val{T: fmt.Sprintf("(- %s.0)", new(big.Int).Neg(v.Const).String()), Ty: to}
		}
		return Val{T: v.Const.String() + ".0", Ty: to}
	}
	if !isInteger(to) {
		e.fail("integer constant used with non-integer type %s", to)
	}
	return Val{T: e.tr.smt.intLit(v.Const, intWidth(to)), Ty: to}
}

func (e *Env) eval(x *Expr) Val {
	tr := e.tr
	switch x.Op {
	case "num":
		bi, ok := new(big.Int).SetString(x.S, 0)
		if !ok {
			e.fail("bad number %q", x.S)
		}
		return e.intConst(bi)
	case "str":
		s, err := strconv.Unquote(`"` + x.S + `"`)
		if err != nil {
			s = x.S
		}
		return Val{T: tr.smt.strLit(s), Ty: types.Typ[types.String]}
	case "true", "false":
		return Val{T: x.Op, Ty: boolT}
	case "nil":
		return Val{T: "nil", Ty: types.Typ[types.UntypedNil]}
	case "id":
		return e.ident(x.S)
	case "old":
		e2 := *e
		e2.heap = e.oldHeap
		if e.own && len(e.override) > 0 {
			// inside old(), a parameter the function reassigns denotes its value on entry, not the
			// value it has in the current loop iteration
			ov := map[string]Val{}
			for k, v := range e.override {
				isParam := false
				for _, p := range e.tr.fn.Params {
					if p.Name() == k {
						isParam = true
					}
				}
				if !isParam {
					ov[k] = v
				}
			}
			e2.override = ov
			e2.entryParams = true
		}
		return e2.eval(x.A[0])
	case "un":
		return e.unary(x)
	case "bin":
		return e.binary(x)
	case "cond":
		c := e.withPol(0).eval(x.A[0])
		a, b := e.eval(x.A[1]), e.eval(x.A[2])
		a, b = e.unify(a, b)
		return Val{T: fmt.Sprintf("(ite %s %s %s)", c.T, a.T, b.T), Ty: a.Ty}
	case "sel":
		return e.selector(x)
	case "idx":
		return e.indexExpr(x)
	case "slice":
		return e.sliceExpr(x)
	case "call":
		return e.callExpr(x)
	case "typeof":
		e.fail("typeof must be compared with a type")
	case "forall", "exists":
		return e.quant(x)
	}
	e.fail("unsupported expression form %s", x.Op)
	return Val{}
}

func (e *Env) unify(a, b Val) (Val, Val) {
	if a.Const != nil && b.Const != nil {
		return e.coerce(a, intT), e.coerce(b, intT)
	}
	if a.Const != nil {
		return e.coerce(a, b.Ty), b
	}
	if b.Const != nil {
		return a, e.coerce(b, a.Ty)
	}
	// nil adapts
	if isNilType(a.Ty) && !isNilType(b.Ty) {
		return Val{T: e.tr.smt.zero(b.Ty), Ty: b.Ty}, b
	}
	if isNilType(b.Ty) && !isNilType(a.Ty) {
		return a, Val{T: e.tr.smt.zero(a.Ty), Ty: a.Ty}
	}
	return a, b
}

func isNilType(t types.Type) bool {
	b, ok := t.(*types.Basic)
	return ok && b.Kind() == types.UntypedNil
}

func (e *Env) ident(name string) Val {
	tr := e.tr
	if v, ok := e.bound[name]; ok {
		return v
	}
	if v, ok := e.override[name]; ok {
		return v
	}
	if v, ok := e.vars[name]; ok {
		return v
	}
	if x, ok := e.lets[name]; ok {
		return e.eval(x)
	}
	if x, ok := tr.lets[name]; ok && e.own {
		return e.eval(x)
	}
	// results
	if e.atReturn {
		for i, n := range e.resNames {
			if n == name && i < len(e.results) {
				return e.results[i]
			}
		}
		if strings.HasPrefix(name, "result") {
			if k, err := strconv.Atoi(name[6:]); err == nil && k < len(e.results) {
				return e.results[k]
			}
			if name == "result" && len(e.results) == 1 {
				return e.results[0]
			}
		}
	}
	// call sites
	if s := tr.siteFor(name); s != nil {
		return Val{T: "site"}.withSite(s)
	}
	// parameters and free variables of the function under contract (only when evaluating its own contract)
	if e.own {
		for _, p := range tr.fn.Params {
			if p.Name() == name {
				return tr.val(p)
			}
		}
		for _, p := range tr.fn.FreeVars {
			if p.Name() == name {
				if capturedByRef(p) {
					// the name denotes the variable: its current value
					et := p.Type().Underlying().(*types.Pointer).Elem()
					return Val{T: tr.load(e.heap, tr.val(p).T, et, "true", true), Ty: et}
				}
				return tr.val(p)
			}
		}
		if v, ok := e.localVar(name); ok {
			return v
		}
		if t, ok := tr.localType(name); ok {
			// the variable exists in the function but has no value on this path yet
			return tr.ghostLocal(name, t)
		}
	}
	// package-level constants and variables
	if e.pkg != nil {
		if obj := e.pkg.Scope().Lookup(name); obj != nil {
			if v, ok := e.objVal(obj); ok {
				return v
			}
		}
	}
	if obj := types.Universe.Lookup(name); obj != nil {
		if v, ok := e.objVal(obj); ok {
			return v
		}
	}
	e.fail("unknown identifier %q", name)
	return Val{}
}

func (e *Env) objVal(obj types.Object) (Val, bool) {
	tr := e.tr
	switch o := obj.(type) {
	case *types.Const:
		t := o.Type()
		if b, ok := t.Underlying().(*types.Basic); ok {
			switch {
			case b.Info()&types.IsInteger != 0:
				bi, ok := constant.Val(constant.ToInt(o.Val())).(*big.Int)
				if !ok {
					i64, _ := constant.Int64Val(constant.ToInt(o.Val()))
					bi = big.NewInt(i64)
				}
				if b.Info()&types.IsUntyped != 0 {
					return Val{Const: bi}, true
				}
				return Val{T: tr.smt.intLit(bi, intWidth(t)), Ty: t}, true
			case b.Info()&types.IsString != 0:
				return Val{T: tr.smt.strLit(constant.StringVal(o.Val())), Ty: t}, true
			case b.Info()&types.IsBoolean != 0:
				return Val{T: fmt.Sprint(constant.BoolVal(o.Val())), Ty: t}, true
			}
		}
	case *types.Var:
		if o.Pkg() != nil && o.Parent() == o.Pkg().Scope() {
			key := o.Pkg().Path() + "." + o.Name()
			id, ok := tr.eng.globalIDs[key]
			if !ok {
				id = len(tr.eng.globalIDs) + 1
				tr.eng.globalIDs[key] = id
			}
			addr := fmt.Sprintf("(glob %d)", id)
			return Val{T: tr.load(e.heap, addr, o.Type(), "true", true), Ty: o.Type()}, true
		}
	case *types.Nil:
		return Val{T: "nil", Ty: types.Typ[types.UntypedNil]}, true
	}
	return Val{}, false
}

// localVar resolves a source-level local variable at the environment's program point:
// the nearest dominating DebugRef or phi for a variable of that name.
func (e *Env) localVar(name string) (Val, bool) {
	if v, ok := e.localVarAt(name, e.block, e.idx); ok {
		return v, true
	}
	if e.altBlock != nil {
		return e.localVarAt(name, e.altBlock, e.altIdx)
	}
	return Val{}, false
}

func (e *Env) localVarAt(name string, b *ssa.BasicBlock, idx int) (Val, bool) {
	tr := e.tr
	if b == nil {
		return Val{}, false
	}
	for b != nil {
		instrs := b.Instrs
		if idx > len(instrs) {
			idx = len(instrs)
		}
		for i := idx - 1; i >= 0; i-- {
			switch in := instrs[i].(type) {
			case *ssa.DebugRef:
				if id, ok := in.Expr.(interface{ String() string }); ok {
					_ = id
				}
				if obj := in.Object(); obj != nil && obj.Name() == name {
					if vobj, isVar := obj.(*types.Var); !isVar || vobj.IsField() || (vobj.Pkg() != nil && vobj.Parent() == vobj.Pkg().Scope()) {
						continue
					}
					v, ok := tr.vals[in.X]
					if !ok {
						if _, isC := in.X.(*ssa.Const); isC {
							v = tr.val(in.X)
						} else if _, isP := in.X.(*ssa.Parameter); isP {
							v = tr.val(in.X)
						} else {
							continue
						}
					}
					if in.IsAddr {
						et := in.X.Type().Underlying().(*types.Pointer).Elem()
						return Val{T: tr.load(e.heap, v.T, et, "true", true), Ty: et}, true
					}
					// the initial value of a variable that lives in memory (`r := <expr>` followed by
					// `*alloc(r) = value`): the variable may have been assigned since, read the memory
					if refs := in.X.Referrers(); refs != nil {
						for _, r := range *refs {
							if st, ok := r.(*ssa.Store); ok && st.Val == in.X {
								if al, ok := st.Addr.(*ssa.Alloc); ok && al.Comment == name {
									if av, ok := tr.vals[al]; ok {
										et := al.Type().Underlying().(*types.Pointer).Elem()
										return Val{T: tr.load(e.heap, av.T, et, "true", true), Ty: et}, true
									}
								}
							}
						}
					}
					return v, true
				}
			case *ssa.Phi:
				if in.Comment == name {
					if v, ok := tr.vals[in]; ok {
						return v, true
					}
				}
			}
		}
		b = b.Idom()
		if b != nil {
			idx = len(b.Instrs)
		}
	}
	return Val{}, false
}

// localAddr resolves a source-level local variable that lives in memory (address-taken) to its address.
func (e *Env) localAddr(name string) (string, types.Type, bool) {
	if a, t, ok := e.localAddrAt(name, e.block, e.idx); ok {
		return a, t, true
	}
	if e.altBlock != nil {
		return e.localAddrAt(name, e.altBlock, e.altIdx)
	}
	return "", nil, false
}

func (e *Env) localAddrAt(name string, b *ssa.BasicBlock, idx int) (string, types.Type, bool) {
	tr := e.tr
	for b != nil {
		instrs := b.Instrs
		if idx > len(instrs) {
			idx = len(instrs)
		}
		for i := idx - 1; i >= 0; i-- {
			switch in := instrs[i].(type) {
			case *ssa.DebugRef:
				if obj := in.Object(); obj != nil && obj.Name() == name {
					vobj, isVar := obj.(*types.Var)
					if !isVar || vobj.IsField() || (vobj.Pkg() != nil && vobj.Parent() == vobj.Pkg().Scope()) {
						continue
					}
					if !in.IsAddr {
						// a use of the whole variable: `*alloc` was loaded; the variable lives at alloc
						if ld, ok := in.X.(*ssa.UnOp); ok && ld.Op == token.MUL {
							if al, ok := ld.X.(*ssa.Alloc); ok {
								if v, ok := tr.vals[al]; ok {
									return v.T, al.Type().Underlying().(*types.Pointer).Elem(), true
								}
							}
						}
						return "", nil, false
					}
					v, ok := tr.vals[in.X]
					if !ok {
						return "", nil, false
					}
					return v.T, in.X.Type().Underlying().(*types.Pointer).Elem(), true
				}
			case *ssa.Phi:
				if in.Comment == name {
					return "", nil, false
				}
			}
		}
		b = b.Idom()
		if b != nil {
			idx = len(b.Instrs)
		}
	}
	return "", nil, false
}

// withSite marks a value as a reference to a call site.
func (v Val) withSite(s *Site) Val {
	v.Tuple = nil
	v.T = "site"
	v.Type_ = siteMarker{s}
	return v
}

type siteMarker struct{ s *Site }

func (siteMarker) Underlying() types.Type { return types.Typ[types.Invalid] }
func (siteMarker) String() string         { return "site" }

func (e *Env) unary(x *Expr) Val {
	tr := e.tr
	switch x.S {
	case "!":
		v := e.withPol(-e.pol).eval(x.A[0])
		return Val{T: tr.boolNot(v.T), Ty: boolT}
	case "-":
		v := e.eval(x.A[0])
		if v.Const != nil {
			return Val{Const: new(big.Int).Neg(v.Const)}
		}
		if tr.smt.intMode {
			return Val{T: fmt.Sprintf("(- %s)", v.T), Ty: v.Ty}
		}
		return Val{T: fmt.Sprintf("(bvneg %s)", v.T), Ty: v.Ty}
	case "^":
		v := e.eval(x.A[0])
		return Val{T: fmt.Sprintf("(bvnot %s)", v.T), Ty: v.Ty}
	case "*":
		v := e.eval(x.A[0])
		pt, ok := v.Ty.Underlying().(*types.Pointer)
		if !ok {
			e.fail("dereference of non-pointer %s", v.Ty)
		}
		return Val{T: tr.load(e.heap, v.T, pt.Elem(), "true", true), Ty: pt.Elem()}
	case "&":
		if a, t, ok := e.addrOf(x.A[0]); ok {
			return Val{T: a, Ty: types.NewPointer(t)}
		}
		e.fail("cannot take address")
	}
	e.fail("unknown unary operator %s", x.S)
	return Val{}
}

func (e *Env) binary(x *Expr) Val {
	tr := e.tr
	op := x.S
	switch op {
	case "&&", "||", "==>", "<==>":
		if op == "<==>" && e.pol != 0 && (hasQuant(x.A[0]) || hasQuant(x.A[1])) {
			l := &Expr{Op: "bin", S: "==>", A: []*Expr{x.A[0], x.A[1]}}
			r := &Expr{Op: "bin", S: "==>", A: []*Expr{x.A[1], x.A[0]}}
			return Val{T: and(e.eval(l).T, e.eval(r).T), Ty: boolT}
		}
		var a, b Val
		switch op {
		case "==>":
			a, b = e.withPol(-e.pol).eval(x.A[0]), e.eval(x.A[1])
		case "<==>":
			a, b = e.withPol(0).eval(x.A[0]), e.withPol(0).eval(x.A[1])
		default:
			a, b = e.eval(x.A[0]), e.eval(x.A[1])
		}
		switch op {
		case "&&":
			return Val{T: and(a.T, b.T), Ty: boolT}
		case "||":
			return Val{T: or(a.T, b.T), Ty: boolT}
		case "==>":
			return Val{T: fmt.Sprintf("(=> %s %s)", a.T, b.T), Ty: boolT}
		default:
			return Val{T: fmt.Sprintf("(= %s %s)", a.T, b.T), Ty: boolT}
		}
	}
	// typeof comparisons
	if (op == "==" || op == "!=") && x.A[0].Op == "typeof" {
		v := e.eval(x.A[0].A[0])
		if _, ok := v.Ty.Underlying().(*types.Interface); !ok {
			e.fail("typeof needs an interface value")
		}
		var t string
		if x.A[1].Op == "nil" {
			t = fmt.Sprintf("(= (itag %s) 0)", v.T)
		} else {
			ty := e.lookupType(x.A[1])
			if ty == nil {
				e.fail("unknown type %s", x.A[1])
			}
			t = fmt.Sprintf("(= (itag %s) %d)", v.T, tr.smt.typeTag(ty))
		}
		if op == "!=" {
			t = tr.boolNot(t)
		}
		return Val{T: t, Ty: boolT}
	}
	a, b := e.eval(x.A[0]), e.eval(x.A[1])
	if a.Const != nil && b.Const != nil {
		// constant folding
		r := new(big.Int)
		switch op {
		case "+":
			return Val{Const: r.Add(a.Const, b.Const)}
		case "-":
			return Val{Const: r.Sub(a.Const, b.Const)}
		case "*":
			return Val{Const: r.Mul(a.Const, b.Const)}
		case "/":
			return Val{Const: r.Quo(a.Const, b.Const)}
		case "%":
			return Val{Const: r.Rem(a.Const, b.Const)}
		case "<<":
			return Val{Const: r.Lsh(a.Const, uint(b.Const.Int64()))}
		case ">>":
			return Val{Const: r.Rsh(a.Const, uint(b.Const.Int64()))}
		}
		c := a.Const.Cmp(b.Const)
		res := false
		switch op {
		case "==":
			res = c == 0
		case "!=":
			res = c != 0
		case "<":
			res = c < 0
		case "<=":
			res = c <= 0
		case ">":
			res = c > 0
		case ">=":
			res = c >= 0
		default:
			e.fail("constant operator %s", op)
		}
		return Val{T: fmt.Sprint(res), Ty: boolT}
	}
	if op == "<<" || op == ">>" {
		if a.Const != nil {
			a = e.coerce(a, intT)
		}
		if b.Const != nil {
			b = e.coerce(b, types.Typ[types.Uint64])
		}
		tok := map[string]token.Token{"<<": token.SHL, ">>": token.SHR}[op]
		return Val{T: tr.intBin(tok, a, b, a.Ty, nil, token.NoPos), Ty: a.Ty}
	}
	a, b = e.unify(a, b)
	switch op {
	case "===", "!==", "==", "!=":
		// nil comparison of interfaces and slices follows Go
		var t string
		switch {
		case isIfaceT(a.Ty) && (x.A[1].Op == "nil" || x.A[0].Op == "nil"):
			t = fmt.Sprintf("(= (itag %s) 0)", pick(x.A[0].Op == "nil", b.T, a.T))
		case isSliceT(a.Ty) && (x.A[1].Op == "nil" || x.A[0].Op == "nil"):
			t = fmt.Sprintf("(= (sbase %s) nil)", pick(x.A[0].Op == "nil", b.T, a.T))
		default:
			if tr.smt.sortOf(a.Ty) != tr.smt.sortOf(b.Ty) {
				e.fail("comparison of different sorts: %s vs %s", a.Ty, b.Ty)
			}
			t = tr.equal(a, b)
		}
		if op == "!=" || op == "!==" {
			t = tr.boolNot(t)
		}
		return Val{T: t, Ty: boolT}
	}
	if a.Ty == tyMath || b.Ty == tyMath {
		if a.Ty != tyMath || b.Ty != tyMath {
			e.fail("mathint mixed with machine integer in %s (convert with mathint(x))", op)
		}
		switch op {
		case "+", "-", "*":
			return Val{T: fmt.Sprintf("(%s %s %s)", op, a.T, b.T), Ty: tyMath}
		case "/":
			return Val{T: fmt.Sprintf("(div %s %s)", a.T, b.T), Ty: tyMath}
		case "%":
			return Val{T: fmt.Sprintf("(mod %s %s)", a.T, b.T), Ty: tyMath}
		case "<", "<=", ">", ">=":
			return Val{T: fmt.Sprintf("(%s %s %s)", op, a.T, b.T), Ty: boolT}
		}
		e.fail("operator %s on mathint", op)
	}
	if !isInteger(a.Ty) {
		if tr.smt.sortOf(a.Ty) == "Bool" {
			e.fail("operator %s on booleans", op)
		}
		if tr.smt.sortOf(a.Ty) == "F64" && tr.smt.sortOf(b.Ty) == "F64" {
			// floating-point values are reals in the model (as in the code's own arithmetic)
			tr.floatUsed = true
			switch op {
			case "<", "<=", ">", ">=":
				return Val{T: fmt.Sprintf("(%s %s %s)", op, a.T, b.T), Ty: boolT}
			case "+", "-", "*":
				return Val{T: fmt.Sprintf("(%s %s %s)", op, a.T, b.T), Ty: a.Ty}
			}
		}
		if op == "+" && tr.smt.sortOf(a.Ty) == "Str" && tr.smt.sortOf(b.Ty) == "Str" {
			// string concatenation: the same term the code's own concatenation of these operands gives
			return Val{T: fmt.Sprintf("(str_concat %s %s)", a.T, b.T), Ty: a.Ty}
		}
		e.fail("operator %s on non-integer type %s", op, a.Ty)
	}
	if intWidth(a.Ty) != intWidth(b.Ty) && !tr.smt.intMode {
		e.fail("operands of %s have different widths (%s, %s)", op, a.Ty, b.Ty)
	}
	toks := map[string]token.Token{"+": token.ADD, "-": token.SUB, "*": token.MUL, "/": token.QUO, "%": token.REM, "&": token.AND, "|": token.OR, "^": token.XOR, "&^": token.AND_NOT,
		"<": token.LSS, "<=": token.LEQ, ">": token.GTR, ">=": token.GEQ}
	tok, ok := toks[op]
	if !ok {
		e.fail("unknown operator %s", op)
	}
	switch tok {
	case token.LSS, token.LEQ, token.GTR, token.GEQ:
		return Val{T: tr.intCmp(tok, a, b), Ty: boolT}
	}
	return Val{T: tr.intBin(tok, a, b, a.Ty, nil, token.NoPos), Ty: a.Ty}
}

func pick(c bool, a, b string) string {
	if c {
		return a
	}
	return b
}

func isIfaceT(t types.Type) bool {
	if t == nil {
		return false
	}
	_, ok := t.Underlying().(*types.Interface)
	return ok
}
func isSliceT(t types.Type) bool {
	if t == nil {
		return false
	}
	_, ok := t.Underlying().(*types.Slice)
	return ok
}

// findField finds a (possibly promoted) field; returns the index path.
func findField(t types.Type, name string) ([]int, types.Type) {
	st, ok := t.Underlying().(*types.Struct)
	if !ok {
		return nil, nil
	}
	for i := 0; i < st.NumFields(); i++ {
		if st.Field(i).Name() == name {
			return []int{i}, st.Field(i).Type()
		}
	}
	for i := 0; i < st.NumFields(); i++ {
		f := st.Field(i)
		if f.Embedded() {
			ft := f.Type()
			if p, ok := ft.Underlying().(*types.Pointer); ok {
				_ = p
				continue // promoted through pointer: not supported in contracts
			}
			if path, ty := findField(ft, name); path != nil {
				return append([]int{i}, path...), ty
			}
		}
	}
	return nil, nil
}

// addrOf evaluates an expression to an address where that is possible.
func (e *Env) addrOf(x *Expr) (string, types.Type, bool) {
	tr := e.tr
	switch x.Op {
	case "id":
		if _, isLocal := e.bound[x.S]; isLocal {
			return "", nil, false
		}
		if _, ov := e.override[x.S]; ov {
			return "", nil, false
		}
		if e.own {
			for _, p := range tr.fn.FreeVars {
				if p.Name() == x.S && capturedByRef(p) {
					return tr.val(p).T, p.Type().Underlying().(*types.Pointer).Elem(), true
				}
			}
			isParam := false
			for _, p := range tr.fn.Params {
				if p.Name() == x.S {
					isParam = true // parameters denote their value on entry, even when spilled to memory
				}
			}
			if !isParam {
				if a, t, ok := e.localAddr(x.S); ok {
					return a, t, true
				}
			}
		}
		if e.pkg != nil {
			if obj, ok := e.pkg.Scope().Lookup(x.S).(*types.Var); ok && obj != nil {
				if _, shadow := e.vars[x.S]; !shadow {
					key := obj.Pkg().Path() + "." + obj.Name()
					id, ok := tr.eng.globalIDs[key]
					if !ok {
						id = len(tr.eng.globalIDs) + 1
						tr.eng.globalIDs[key] = id
					}
					return fmt.Sprintf("(glob %d)", id), obj.Type(), true
				}
			}
		}
	case "un":
		if x.S == "*" {
			v := e.eval(x.A[0])
			if pt, ok := v.Ty.Underlying().(*types.Pointer); ok {
				return v.T, pt.Elem(), true
			}
		}
	case "sel":
		// base may be a pointer value or itself addressable
		if x.A[0].Op == "id" {
			if e.importByName(x.A[0].S) != nil {
				if _, isLocal := e.tryIdent(x.A[0].S); !isLocal {
					return "", nil, false
				}
			}
		}
		var baseAddr string
		var baseTy types.Type
		if a, t, ok := e.addrOf(x.A[0]); ok {
			if pt, isPtr := t.Underlying().(*types.Pointer); isPtr {
				// auto-deref: load the pointer
				baseAddr = e.named(Val{T: tr.load(e.heap, a, t, "true", true), Ty: t}).T
				baseTy = pt.Elem()
			} else {
				baseAddr, baseTy = a, t
			}
		} else {
			v := e.evalNoSite(x.A[0])
			if v.Ty == nil {
				return "", nil, false
			}
			pt, isPtr := v.Ty.Underlying().(*types.Pointer)
			if !isPtr {
				return "", nil, false
			}
			baseAddr, baseTy = v.T, pt.Elem()
		}
		path, fty := findField(baseTy, x.S)
		if path == nil {
			return "", nil, false
		}
		cur := baseTy
		for _, i := range path {
			st := cur.Underlying().(*types.Struct)
			baseAddr = tr.fldAddr(baseAddr, st, i)
			cur = st.Field(i).Type()
		}
		return baseAddr, fty, true
	case "idx":
		// an element of an array that lives in memory is read from its own cell
		if a, t, ok := e.addrOf(x.A[0]); ok {
			if arr, isArr := t.Underlying().(*types.Array); isArr {
				i := e.coerce(e.eval(x.A[1]), intT)
				return tr.elemAddr(a, tr.toIdx(i)), arr.Elem(), true
			}
		}
		base := e.evalNoSite(x.A[0])
		if base.Ty == nil {
			return "", nil, false
		}
		i := e.coerce(e.eval(x.A[1]), intT)
		switch u := base.Ty.Underlying().(type) {
		case *types.Slice:
			if it := tr.toIdx(i); i.Const == nil && !strings.Contains(it, "%%") && len(it) < 120 && strings.Contains(it, "(slen ") && !strings.Contains(it, "sk_") && len(tr.clauseCandSet) < 8 {
				// an index built from a slice length (x[len(dst)], x[len(x)-1]) that a contract clause
				// reads at: an instantiation term for the quantified facts
				// about slices (prefix preserved by append, copy, callee frames), like the indices the
				// code itself uses
				known := false
				for _, c := range tr.idxCands {
					if c.T == it {
						known = true
					}
				}
				if !known {
					// marked, so that the sliding window of the code's own index terms (globalCands)
					// is not pushed out by clause terms
					if tr.clauseCandSet == nil {
						tr.clauseCandSet = map[string]bool{}
					}
					tr.clauseCandSet[it] = true
					tr.idxCands = append(tr.idxCands, Val{T: it, Ty: intT})
				}
			}
			return tr.elemAddr(fmt.Sprintf("(sbase %s)", base.T), tr.ivAdd(fmt.Sprintf("(soff %s)", base.T), tr.toIdx(i))), u.Elem(), true
		case *types.Pointer:
			if arr, ok := u.Elem().Underlying().(*types.Array); ok {
				return tr.elemAddr(base.T, tr.toIdx(i)), arr.Elem(), true
			}
		}
	}
	return "", nil, false
}

func (e *Env) tryIdent(name string) (v Val, ok bool) {
	defer func() {
		if r := recover(); r != nil {
			if _, isE := r.(evalErr); isE {
				ok = false
				return
			}
			panic(r)
		}
	}()
	return e.ident(name), true
}

func (e *Env) evalNoSite(x *Expr) Val {
	if x.Op == "id" {
		if e.tr.siteFor(x.S) != nil {
			_, shadow := e.bound[x.S]
			if _, isVar := e.vars[x.S]; isVar && !e.own {
				shadow = true
			}
			if !shadow {
				return Val{}
			}
		}
	}
	v := e.eval(x)
	if _, isSite := v.Type_.(siteMarker); isSite {
		return Val{}
	}
	return v
}

// named gives a long closed term (no bound variable inside) a name so that it is not repeated.
func (e *Env) named(v Val) Val {
	if v.T == "" || len(v.T) < 60 || strings.Contains(v.T, "q%%") || strings.Contains(v.T, "p%%") || strings.Contains(v.T, "r%%") {
		return v
	}
	if v.Ty == nil {
		return v
	}
	v.T = e.tr.smt.defineCached("cx", e.tr.smt.sortOf(v.Ty), v.T)
	return v
}

func (e *Env) selector(x *Expr) Val {
	tr := e.tr
	// package-qualified name
	if x.A[0].Op == "id" {
		if _, isLocal := e.tryIdent(x.A[0].S); !isLocal {
			if p := e.importByName(x.A[0].S); p != nil {
				obj := p.Scope().Lookup(x.S)
				if obj == nil {
					e.fail("%s.%s not found", x.A[0].S, x.S)
				}
				if v, ok := e.objVal(obj); ok {
					return v
				}
				e.fail("%s.%s is not a constant or variable", x.A[0].S, x.S)
			}
		}
	}
	// call-site members
	if x.A[0].Op == "id" {
		if s := tr.siteFor(x.A[0].S); s != nil {
			_, shadow := e.bound[x.A[0].S]
			if _, isVar := e.vars[x.A[0].S]; isVar && !e.own {
				shadow = true // a parameter of the callee whose contract is being evaluated, not a site of the caller
			}
			if !shadow {
				return e.siteMember(s, x.S)
			}
		}
	}
	if a, t, ok := e.addrOf(x); ok {
		return e.named(Val{T: tr.load(e.heap, a, t, "true", true), Ty: t})
	}
	v := e.eval(x.A[0])
	if v.Ty == nil {
		e.fail("cannot select %s", x.S)
	}
	// struct value
	path, fty := findField(v.Ty, x.S)
	if path == nil {
		e.fail("no field %s in %s", x.S, v.Ty)
	}
	cur := v.Ty
	t := v.T
	for _, i := range path {
		name := tr.smt.sortOf(cur)
		t = fmt.Sprintf("(%s_f%d %s)", name, i, t)
		cur = cur.Underlying().(*types.Struct).Field(i).Type()
	}
	return Val{T: t, Ty: fty}
}

func (e *Env) siteMember(s *Site, m string) Val {
	if s.Missing {
		if m == "called" {
			return Val{T: "false", Ty: boolT}
		}
		panic(missingSiteErr{s.Callee})
	}
	switch {
	case m == "called":
		return Val{T: s.Reach, Ty: boolT}
	case m == "recv" && s.Recv != nil:
		return *s.Recv
	case strings.HasPrefix(m, "arg"):
		if k, err := strconv.Atoi(m[3:]); err == nil && k < len(s.Args) {
			return s.Args[k]
		}
	case strings.HasPrefix(m, "res"):
		if m == "res" && len(s.Results) == 1 {
			return s.Results[0]
		}
		if k, err := strconv.Atoi(m[3:]); err == nil && k < len(s.Results) {
			return s.Results[k]
		}
	}
	for i, n := range s.ParamNames {
		if n == m && i < len(s.Args) {
			return s.Args[i]
		}
	}
	for i, n := range s.ResNames {
		if n == m && i < len(s.Results) {
			return s.Results[i]
		}
	}
	e.fail("call site has no member %q (args %v, results %v)", m, s.ParamNames, s.ResNames)
	return Val{}
}

func (e *Env) indexExpr(x *Expr) Val {
	tr := e.tr
	if a, t, ok := e.addrOf(x); ok {
		return e.named(Val{T: tr.load(e.heap, a, t, "true", true), Ty: t})
	}
	base := e.eval(x.A[0])
	i := e.coerce(e.eval(x.A[1]), intT)
	switch u := base.Ty.Underlying().(type) {
	case *types.Array:
		return Val{T: fmt.Sprintf("(select %s %s)", base.T, tr.toIdx(i)), Ty: u.Elem()}
	case *types.Basic:
		if isStringType(base.Ty) {
			return Val{T: fmt.Sprintf("(strat %s %s)", base.T, tr.toIdx(i)), Ty: types.Typ[types.Uint8]}
		}
	case *types.Map:
		ks, vs := tr.smt.sortOf(u.Key()), tr.smt.sortOf(u.Elem())
		vals := fmt.Sprintf("(select %s %s)", e.heap.lookup(fmt.Sprintf("(Array %s %s)", ks, vs)), base.T)
		k := e.eval(x.A[1])
		k, _ = e.unify(k, Val{T: "", Ty: u.Key()})
		return Val{T: fmt.Sprintf("(select %s %s)", vals, k.T), Ty: u.Elem()}
	}
	e.fail("cannot index %s", base.Ty)
	return Val{}
}

func (e *Env) sliceExpr(x *Expr) Val {
	tr := e.tr
	base := e.eval(x.A[0])
	if !isSliceT(base.Ty) {
		e.fail("slice expression on %s", base.Ty)
	}
	lo := tr.lit64(0)
	hi := fmt.Sprintf("(slen %s)", base.T)
	if x.A[1] != nil {
		lo = tr.toIdx(e.coerce(e.eval(x.A[1]), intT))
	}
	if x.A[2] != nil {
		hi = tr.toIdx(e.coerce(e.eval(x.A[2]), intT))
	}
	return Val{T: fmt.Sprintf("(mkslice (sbase %s) %s %s %s)", base.T, tr.ivAdd(fmt.Sprintf("(soff %s)", base.T), lo), tr.ivSub(hi, lo), tr.ivSub(fmt.Sprintf("(scap %s)", base.T), lo)), Ty: base.Ty}
}

func (e *Env) callExpr(x *Expr) Val {
	tr := e.tr
	switch x.S {
	case "len", "cap":
		v := e.eval(x.A[0])
		sel := map[string]string{"len": "slen", "cap": "scap"}[x.S]
		switch u := v.Ty.Underlying().(type) {
		case *types.Slice:
			if !strings.Contains(v.T, "%%") && strings.HasPrefix(v.T, "(select ") {
				// a slice value read from memory that a contract measures is a Go slice value:
				// 0 <= len <= cap (contract expressions read memory without the well-formedness
				// facts loads in the code get). Only for memory reads: a slice *computed* on some path
				// (s[2:]) is well-formed only where that path's bounds check passed, and an
				// unconditional fact about it would silently constrain the other paths.
				tr.assume("true", fmt.Sprintf("(wfslice %s)", v.T), "wf slice measured by a contract clause")
			}
			return Val{T: fmt.Sprintf("(%s %s)", sel, v.T), Ty: intT}
		case *types.Basic:
			return Val{T: fmt.Sprintf("(strlen %s)", v.T), Ty: intT}
		case *types.Array:
			return Val{T: tr.lit64(u.Len()), Ty: intT}
		case *types.Map:
			if x.S == "len" {
				return Val{T: tr.mapLen(e.heap, v), Ty: intT}
			}
		}
		e.fail("len of %s", v.Ty)
	case "mathint":
		v := e.eval(x.A[0])
		if v.Const != nil {
			return e.coerce(v, tyMath)
		}
		if !isInteger(v.Ty) {
			e.fail("mathint() of non-integer")
		}
		if v.Ty == tyMath || tr.smt.intMode {
			return Val{T: v.T, Ty: tyMath}
		}
		if isUnsigned(v.Ty) {
			return Val{T: fmt.Sprintf("(bv2nat %s)", v.T), Ty: tyMath}
		}
		w := intWidth(v.Ty)
		return Val{T: fmt.Sprintf("(ite (bvslt %s %s) (- (bv2nat %s) %s) (bv2nat %s))", v.T, tr.smt.intLit(big.NewInt(0), w), v.T, new(big.Int).Lsh(big.NewInt(1), uint(w)).String(), v.T), Ty: tyMath}
	case "wide":
		v := e.eval(x.A[0])
		if v.Const != nil {
			return Val{T: tr.smt.intLit(v.Const, 128), Ty: tyWide}
		}
		if !isInteger(v.Ty) {
			e.fail("wide() of non-integer")
		}
		return Val{T: tr.conv(v, tyWide), Ty: tyWide}
	case "before", "after":
		// before(site, expr) / after(site, expr): evaluate in the heap before/after a call site
		if len(x.A) != 2 || x.A[0].Op != "id" {
			e.fail("%s(site, expr)", x.S)
		}
		s := tr.siteFor(x.A[0].S)
		if s == nil {
			e.fail("unknown site %s", x.A[0].S)
		}
		e2 := *e
		if x.S == "before" {
			e2.heap = s.Before
		} else {
			e2.heap = s.After
		}
		if e2.heap == nil {
			e.fail("site %s has not been reached on this path", x.A[0].S)
		}
		if s.Block != nil {
			e2.altBlock, e2.altIdx = s.Block, s.Index
		}
		return e2.eval(x.A[1])
	case "as":
		// as(x, T): the dynamic value of interface x viewed as concrete type T (meaningful when typeof(x) == T)
		if len(x.A) != 2 {
			e.fail("as(x, T)")
		}
		v := e.eval(x.A[0])
		if !isIfaceT(v.Ty) {
			e.fail("as() needs an interface value")
		}
		ty := e.lookupType(x.A[1])
		if ty == nil {
			e.fail("unknown type %s", x.A[1])
		}
		_, unbox := tr.smt.boxFn(tr.smt.sortOf(ty))
		return Val{T: fmt.Sprintf("(%s (idata %s))", unbox, v.T), Ty: ty}
	case "last", "invoked":
		// last(f) / invoked(f) in the contract of a callee that calls its function-typed parameter f
		if len(x.A) != 1 || x.A[0].Op != "id" {
			e.fail("%s(param)", x.S)
		}
		if e.invoked != nil {
			if inv, ok := e.invoked[x.A[0].S]; ok {
				if x.S == "invoked" {
					return Val{T: inv.Invoked, Ty: boolT}
				}
				if len(inv.Results) == 1 {
					return inv.Results[0]
				}
				e.fail("last(%s): the function has %d results", x.A[0].S, len(inv.Results))
			}
		}
		e.fail("%s(%s): only meaningful in the contract of a callee that declares `invokes %s`", x.S, x.A[0].S, x.A[0].S)
	case "visited":
		// visited(N, k): the range-over-map loop number N has already yielded key k
		if len(x.A) != 2 || x.A[0].Op != "num" {
			e.fail("visited(loop-number, key)")
		}
		n, _ := strconv.Atoi(x.A[0].S)
		rg := tr.rangeOfLoop(n)
		if rg == nil {
			e.fail("visited(%d, _): loop %d is not a range over a map", n, n)
		}
		cur, ok := tr.rangeVisited[rg]
		if e.visited != nil {
			cur, ok = e.visited[rg]
		}
		if !ok {
			e.fail("visited(%d, _): the loop has not been reached", n)
		}
		mt := rg.X.Type().Underlying().(*types.Map)
		k := e.coerce(e.eval(x.A[1]), mt.Key())
		return Val{T: fmt.Sprintf("(select %s %s)", cur, k.T), Ty: boolT}
	case "frombytes":
		// frombytes(s, b): the string s was produced by the conversion string(b) on the path to this
		// point (a relation, asserted where the conversion happens; nothing is assumed about contents)
		if len(x.A) != 2 {
			e.fail("frombytes(s, b)")
		}
		a, b := e.eval(x.A[0]), e.eval(x.A[1])
		if tr.smt.sortOf(a.Ty) != "Str" || tr.smt.sortOf(b.Ty) != "Slice" {
			e.fail("frombytes() needs a string and a byte slice")
		}
		tr.smt.declareFun("is_b2s", []string{"Str", "Slice"}, "Bool")
		return Val{T: fmt.Sprintf("(is_b2s %s %s)", a.T, b.T), Ty: boolT}
	case "disjoint":
		// disjoint(a, b): two slices do not share a backing array (they live in different allocations)
		if len(x.A) != 2 {
			e.fail("disjoint(a, b)")
		}
		a, b := e.eval(x.A[0]), e.eval(x.A[1])
		if tr.smt.sortOf(a.Ty) != "Slice" || tr.smt.sortOf(b.Ty) != "Slice" {
			e.fail("disjoint() needs two slices")
		}
		return Val{T: fmt.Sprintf("(not (= (rootloc (sbase %s)) (rootloc (sbase %s))))", a.T, b.T), Ty: boolT}
	case "distinct":
		// distinct(a, b): two reference-like values (pointers, maps, channels, possibly of different
		// static types) are not the same object
		if len(x.A) != 2 {
			e.fail("distinct(a, b)")
		}
		a, b := e.eval(x.A[0]), e.eval(x.A[1])
		if tr.smt.sortOf(a.Ty) != "Ref" || tr.smt.sortOf(b.Ty) != "Ref" {
			e.fail("distinct() needs two reference values")
		}
		return Val{T: fmt.Sprintf("(not (= %s %s))", a.T, b.T), Ty: boolT}
	case "head":
		if len(x.A) != 1 || x.A[0].Op != "id" {
			e.fail("head(loopvar)")
		}
		if v, ok := e.vars["head:"+x.A[0].S]; ok {
			return v
		}
		e.fail("head(%s): only meaningful in a step-assert of the loop that carries %s", x.A[0].S, x.A[0].S)
	case "next":
		if len(x.A) != 1 || x.A[0].Op != "id" {
			e.fail("next(loopvar)")
		}
		if v, ok := e.vars["next:"+x.A[0].S]; ok {
			return v
		}
		e.fail("next(%s): only meaningful in a step-assert of the loop that carries %s", x.A[0].S, x.A[0].S)
	case "lastnow":
		// instant of the most recent clock reading on the path to this point
		if tr.curState == nil || tr.curState.lastNow == "" {
			e.fail("lastnow(): no clock reading known here")
		}
		return Val{T: tr.curState.lastNow, Ty: tyMath}
	case "has":
		// has(m, k): key k is present in map m
		if len(x.A) != 2 {
			e.fail("has(m, k)")
		}
		m := e.eval(x.A[0])
		mt, ok := m.Ty.Underlying().(*types.Map)
		if !ok {
			e.fail("has() needs a map")
		}
		k := e.eval(x.A[1])
		if k.Const != nil {
			k = e.coerce(k, mt.Key())
		}
		domS := domSort(tr.smt.sortOf(mt.Key()))
		return Val{T: fmt.Sprintf("(and (not (= %s nil)) (select (select %s %s) %s))", m.T, e.heap.lookup(domS), m.T, k.T), Ty: boolT}
	case "nonnil":
		v := e.eval(x.A[0])
		return Val{T: tr.boolNot(e.isNil(v)), Ty: boolT}
	case "isnil":
		v := e.eval(x.A[0])
		return Val{T: e.isNil(v), Ty: boolT}
	}
	// conversions T(x) for integer types
	if t := e.lookupType(&Expr{Op: "id", S: x.S}); t != nil && len(x.A) == 1 {
		v := e.eval(x.A[0])
		if v.Const != nil {
			return e.coerce(v, t)
		}
		return Val{T: tr.conv(v, t), Ty: t}
	}
	if strings.Contains(x.S, ".") {
		parts := strings.SplitN(x.S, ".", 2)
		if t := e.lookupType(&Expr{Op: "sel", S: parts[1], A: []*Expr{{Op: "id", S: parts[0]}}}); t != nil && len(x.A) == 1 {
			v := e.eval(x.A[0])
			if v.Const != nil {
				return e.coerce(v, t)
			}
			return Val{T: tr.conv(v, t), Ty: t}
		}
	}
	// spec / uninterpreted functions
	if sf := tr.eng.specFuncs[x.S]; sf != nil && sf.Macro {
		if len(x.A) != len(sf.Params) {
			e.fail("macro %s takes %d arguments", sf.Name, len(sf.Params))
		}
		e2 := *e
		e2.bound = map[string]Val{}
		for k, v := range e.bound {
			e2.bound[k] = v
		}
		for i, p := range sf.Params {
			v := e.eval(x.A[i])
			if v.Const != nil {
				v = e.coerce(v, e.typeByName(p.Type))
			}
			e2.bound[p.Name] = v
		}
		return e2.eval(sf.Body)
	}
	if sf := tr.eng.specFuncs[x.S]; sf != nil {
		name := tr.declareSpec(sf, e)
		var as []string
		for i, a := range x.A {
			v := e.eval(a)
			if i < len(sf.Params) {
				v = e.coerce(v, e.typeByName(sf.Params[i].Type))
			}
			as = append(as, v.T)
		}
		rt := e.typeByName(sf.Ret)
		if len(as) == 0 {
			return Val{T: name, Ty: rt}
		}
		return Val{T: fmt.Sprintf("(%s %s)", name, strings.Join(as, " ")), Ty: rt}
	}
	e.fail("unknown function %s", x.S)
	return Val{}
}

func (e *Env) isNil(v Val) string {
	switch {
	case isIfaceT(v.Ty):
		return fmt.Sprintf("(= (itag %s) 0)", v.T)
	case isSliceT(v.Ty):
		return fmt.Sprintf("(= (sbase %s) nil)", v.T)
	}
	return fmt.Sprintf("(= %s nil)", v.T)
}

func (e *Env) quant(x *Expr) Val {
	tr := e.tr
	mk := func(bound map[string]Val) *Env {
		e2 := *e
		e2.bound = map[string]Val{}
		for k, v := range e.bound {
			e2.bound[k] = v
		}
		e2.qvals = append([]Val{}, e.qvals...)
		for _, qv := range x.Vars {
			if v, ok := bound[qv.Name]; ok {
				e2.bound[qv.Name] = v
				e2.qvals = append(e2.qvals, v)
			}
		}
		return &e2
	}
	// witness of an existential nested in universals, as a function of their bound values: the same
	// source existential used as a hypothesis (invariant at the loop head, callee postcondition) and
	// as a goal (invariant after the step) then shares its witness terms
	witness := func(qv qvar, t types.Type) (string, bool) {
		if len(e.qvals) == 0 || len(x.Vars) != 1 {
			return "", false
		}
		var sorts, args []string
		for _, a := range e.qvals {
			if strings.Contains(a.T, "%%") {
				return "", false
			}
			sorts = append(sorts, tr.smt.sortOf(a.Ty))
			args = append(args, a.T)
		}
		key := fmt.Sprintf("%p/%s/%s", x, qv.Name, strings.Join(sorts, ","))
		name, ok := tr.smt.witFns[key]
		if !ok {
			if tr.smt.witFns == nil {
				tr.smt.witFns = map[string]string{}
			}
			name = tr.smt.uniq("wit_" + qv.Name)
			tr.smt.witFns[key] = name
			tr.smt.prelude = append(tr.smt.prelude, fmt.Sprintf("(declare-fun %s (%s) %s)", name, strings.Join(sorts, " "), tr.smt.sortOf(t)))
		}
		return fmt.Sprintf("(%s %s)", name, strings.Join(args, " ")), true
	}
	toProve := (x.Op == "forall" && e.pol > 0) || (x.Op == "exists" && e.pol < 0)
	toUse := (x.Op == "forall" && e.pol < 0) || (x.Op == "exists" && e.pol > 0)
	if toProve && !e.inQuant {
		// skolemise: fresh constants stand for the bound variables
		b := map[string]Val{}
		for _, qv := range x.Vars {
			t := e.typeByName(qv.Type)
			if x.Op == "exists" {
				if w, ok := witness(qv, t); ok {
					b[qv.Name] = Val{T: w, Ty: t}
					if e.instOnly != nil {
						tr.obWit = append(tr.obWit, Val{T: w, Ty: t})
					}
					known := false
					for _, c := range tr.witTerms {
						if c.T == w {
							known = true
						}
					}
					if !known {
						tr.witTerms = append(tr.witTerms, Val{T: w, Ty: t})
					}
					continue
				}
			}
			n := tr.smt.fresh("sk_"+qv.Name, tr.smt.sortOf(t))
			v := Val{T: n, Ty: t}
			b[qv.Name] = v
			switch {
			case e.instOnly != nil:
				// witness created while re-instantiating: not a new instantiation term (no cascades)
			case e.pol > 0:
				tr.skolems = append(tr.skolems, v) // skolem of a goal: local to the obligation
			default:
				tr.idxCands = append(tr.idxCands, v) // witness named by a hypothesis: usable everywhere after
			}
		}
		return mk(b).eval(x.A[0])
	}
	var decls []string
	b := map[string]Val{}
	for _, qv := range x.Vars {
		t := e.typeByName(qv.Type)
		n := "q%%" + qv.Name
		b[qv.Name] = Val{T: n, Ty: t}
		decls = append(decls, fmt.Sprintf("(%s %s)", n, tr.smt.sortOf(t)))
	}
	qe := mk(b)
	qe.inQuant = true
	body := qe.eval(x.A[0])
	q := fmt.Sprintf("(%s (%s) %s)", x.Op, strings.Join(decls, " "), body.T)
	if toUse && !e.inQuant && len(x.Vars) == 1 {
		// instantiate with the index terms known at this point
		qv := x.Vars[0]
		t := e.typeByName(qv.Type)
		srt := tr.smt.sortOf(t)
		var insts []string
		seen := map[string]bool{}
		prevWant := tr.wantTy
		tr.wantTy = t
		defer func() { tr.wantTy = prevWant }()
		cands := tr.candidates(srt)
		if e.instOnly != nil {
			// new index terms combined with the ones already known (needed for nested quantifiers)
			cands = tr.candidatesOf(append(append([]Val{}, tr.globalCands()...), e.instOnly...), srt)
		}
		if x.Op == "exists" {
			if w, ok := witness(qv, t); ok {
				cands = append(cands, w)
			}
			if e.pol > 0 {
				// witnesses that hypotheses have named so far: instances of a goal existential only
				// (they are never used to instantiate universals, so nothing cascades)
				wt := tr.witTerms
				if len(wt) > 32 {
					wt = wt[len(wt)-32:]
				}
				cands = append(cands, tr.candidatesOfN(wt, srt, 32)...)
			}
		}
		if x.Op == "exists" && e.pol > 0 && e.instOnly == nil && tr.deferEx {
			// goal existential: its instances are chosen when the obligation is emitted, after the
			// hypotheses have been instantiated with the goal's skolem constants (their witnesses
			// are then available as instances). The placeholder occurs positively in the goal.
			ph := tr.smt.fresh("exq", "Bool")
			base := append([]string{}, cands...)
			tr.deferredEx = append(tr.deferredEx, func() string {
				all := append([]string{}, base...)
				all = append(all, tr.candidatesOfN(tr.obWit, srt, 64)...)
				var ds []string
				dseen := map[string]bool{}
				for _, c := range all {
					if dseen[c] {
						continue
					}
					dseen[c] = true
					ie := mk(map[string]Val{qv.Name: {T: c, Ty: t}})
					ds = append(ds, ie.eval(x.A[0]).T)
				}
				// G is monotone in the placeholder's position: with (instances => placeholder) assumed,
				// proving G[placeholder] for every such placeholder proves G[disjunction of instances]
				return fmt.Sprintf("(=> %s %s)", or(ds...), ph)
			})
			return Val{T: ph, Ty: boolT}
		}
		for _, c := range cands {
			if seen[c] {
				continue
			}
			seen[c] = true
			ie := mk(map[string]Val{qv.Name: {T: c, Ty: t}})
			insts = append(insts, ie.eval(x.A[0]).T)
		}
		if e.instOnly != nil {
			if x.Op == "forall" {
				return Val{T: and(insts...), Ty: boolT}
			}
			// an existential in "usable" position stands where a stronger formula is sound:
			// the disjunction of its instances (false when there is none)
			return Val{T: or(insts...), Ty: boolT}
		}
		if dropQuantified {
			// generator-side instantiation only: the query stays quantifier-free
			if x.Op == "forall" {
				return Val{T: and(insts...), Ty: boolT}
			}
			return Val{T: or(insts...), Ty: boolT}
		}
		if x.Op == "forall" {
			return Val{T: and(append([]string{q}, insts...)...), Ty: boolT}
		}
		return Val{T: or(append([]string{q}, insts...)...), Ty: boolT}
	}
	if e.instOnly != nil && toUse && x.Op == "forall" {
		return Val{T: "true", Ty: boolT} // weaker is sound for a universal hypothesis
	}
	return Val{T: q, Ty: boolT}
}

// candidates lists index terms of the given sort that quantified hypotheses are instantiated with.
func (tr *FnTrans) candidates(srt string) []string {
	return tr.candidatesOf(append(append([]Val{}, tr.globalCands()...), tr.skolems...), srt)
}

func (tr *FnTrans) candidatesOf(cands []Val, srt string) []string {
	return tr.candidatesOfN(cands, srt, 10)
}

// candidatesOfN: at most limit of the most recent candidate terms of the given sort (each with its
// neighbours +-1 when it is an integer).
func (tr *FnTrans) candidatesOfN(cands []Val, srt string, limit int) []string {
	var out []string
	add := func(t string) {
		out = append(out, t)
	}
	if srt == tr.smt.intSortW(64) {
		// small constant indices are always tried (chain[0], chain[1], Proof[0] ...)
		for _, k := range []int64{0, 1, 2} {
			add(tr.smt.intLit(big.NewInt(k), 64))
		}
	}
	n := 0
	for i := len(cands) - 1; i >= 0 && n < limit; i-- {
		c := cands[i]
		if tr.smt.sortOf(c.Ty) != srt {
			continue
		}
		if w := tr.wantTy; w != nil {
			// several Go types share one SMT sort (Int in mathematical mode): a string is no index,
			// and a key of another integer type than `int` is only instantiated with terms of that type
			wb, _ := w.Underlying().(*types.Basic)
			cb, _ := c.Ty.Underlying().(*types.Basic)
			if wb != nil && cb != nil {
				if (wb.Info()&types.IsString != 0) != (cb.Info()&types.IsString != 0) {
					continue
				}
				if wb.Info()&types.IsInteger != 0 && wb.Kind() != types.Int && !types.Identical(w.Underlying(), c.Ty.Underlying()) {
					continue
				}
			}
		}
		n++
		add(c.T)
		if isInteger(c.Ty) {
			one := tr.smt.intLit(big.NewInt(1), intWidth(c.Ty))
			if tr.smt.intMode {
				add(fmt.Sprintf("(+ %s 1)", c.T))
				add(fmt.Sprintf("(- %s 1)", c.T))
			} else {
				add(fmt.Sprintf("(bvadd %s %s)", c.T, one))
				add(fmt.Sprintf("(bvsub %s %s)", c.T, one))
			}
		}
	}
	return out
}

// declareSpec makes sure a spec function is declared in the prelude and returns its SMT name.
func (tr *FnTrans) declareSpec(sf *SpecFunc, e *Env) string {
	name := "spec_" + sanitize(sf.Name)
	if tr.smt.ufs[name] {
		return name
	}
	tr.smt.ufs[name] = true
	var ps, pss []string
	se := &Env{tr: tr, vars: map[string]Val{}, heap: e.heap, oldHeap: e.oldHeap, pkg: e.pkg, imports: e.imports, quiet: true, bound: map[string]Val{}}
	for _, p := range sf.Params {
		t := e.typeByName(p.Type)
		n := "p%%" + p.Name
		ps = append(ps, fmt.Sprintf("(%s %s)", n, tr.smt.sortOf(t)))
		pss = append(pss, tr.smt.sortOf(t))
		se.bound[p.Name] = Val{T: n, Ty: t}
	}
	rt := e.typeByName(sf.Ret)
	rs := tr.smt.sortOf(rt)
	if sf.Body == nil {
		tr.smt.prelude = append(tr.smt.prelude, fmt.Sprintf("(declare-fun %s (%s) %s)", name, strings.Join(pss, " "), rs))
		return name
	}
	body := se.coerce(se.eval(sf.Body), rt)
	kw := "define-fun"
	if sf.Rec {
		kw = "define-fun-rec"
	}
	tr.smt.prelude = append(tr.smt.prelude, fmt.Sprintf("(%s %s (%s) %s %s)", kw, name, strings.Join(ps, " "), rs, body.T))
	return name
}

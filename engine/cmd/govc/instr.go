package main

import (
	"fmt"
	"go/token"
	"go/types"
	"math/big"
	"path/filepath"
	"sort"
	"strings"

	"golang.org/x/tools/go/ssa"
)

// run translates the whole function.
func (tr *FnTrans) run() (err error) {
	defer func() {
		if r := recover(); r != nil {
			if u, ok := r.(unsupportedErr); ok {
				err = fmt.Errorf("%s: outside the supported subset: %s", tr.name, u.msg)
				return
			}
			panic(r)
		}
	}()
	if len(tr.fn.Blocks) == 0 {
		return fmt.Errorf("%s: no body", tr.name)
	}
	if err := tr.analyseCFG(); err != nil {
		return err
	}
	tr.resolveSites()
	tr.entryHeap = tr.newRoot()
	// parameters
	for _, p := range tr.fn.Params {
		tr.val(p)
	}
	for _, fv := range tr.fn.FreeVars {
		tr.val(fv)
	}
	// requires
	entryEnv := tr.envAt(nil, 0, tr.entryHeap, tr.entryHeap)
	tr.assumeGlobalInvs("true", tr.entryHeap)
	if tr.c != nil {
		for _, l := range tr.c.Lets {
			tr.lets[l.Name] = l.C.E
		}
		for _, sx := range tr.c.Stable {
			ex, err := parseExpr(sx)
			if err != nil {
				panic(unsupported("stable " + sx + ": " + err.Error()))
			}
			v := entryEnv.eval(ex)
			if _, ok := v.Ty.Underlying().(*types.Pointer); !ok {
				panic(unsupported("stable " + sx + ": not a pointer to a struct"))
			}
			tr.stableVals = append(tr.stableVals, v)
			tr.stableTypes = append(tr.stableTypes, v.Ty.Underlying().(*types.Pointer).Elem())
		}
		for _, sx := range tr.c.StableFields {
			ex, err := parseExpr(sx)
			if err != nil || ex.Op != "sel" {
				panic(unsupported("stable-field " + sx + ": want expr.field"))
			}
			base := entryEnv.eval(ex.A[0])
			pt, ok := base.Ty.Underlying().(*types.Pointer)
			if !ok {
				panic(unsupported("stable-field " + sx + ": base is not a pointer to a struct"))
			}
			stt, ok := pt.Elem().Underlying().(*types.Struct)
			if !ok {
				panic(unsupported("stable-field " + sx + ": base is not a pointer to a struct"))
			}
			fi := -1
			for i := 0; i < stt.NumFields(); i++ {
				if stt.Field(i).Name() == ex.S {
					fi = i
				}
			}
			if fi < 0 {
				panic(unsupported("stable-field " + sx + ": no such field"))
			}
			tr.stableFlds = append(tr.stableFlds, stableFld{addr: tr.fldAddr(base.T, stt, fi), ty: stt.Field(fi).Type(), owner: pt.Elem(), field: ex.S, src: sx})
		}
		var reqs []string
		for _, r := range tr.c.Requires {
			t := tr.assumeHyp(entryEnv, r.E, "true", "requires "+r.Src)
			reqs = append(reqs, t)
		}
		o := tr.oblige("pre-sat", "precondition is satisfiable", "true", "true", token.NoPos)
		o.Expect = "sat"
	}
	for _, b := range tr.topo() {
		st := tr.enterBlock(b)
		if st == nil {
			continue
		}
		tr.curState = st
		for i, in := range b.Instrs {
			tr.curBlock, tr.curIdx = b, i
			tr.instr(st, in)
		}
		tr.out[b] = st
	}
	tr.curState, tr.curBlock = nil, nil
	tr.frameChecks()
	return nil
}

func (tr *FnTrans) edgeCondFor(b *ssa.BasicBlock, predIdx int) string {
	p := b.Preds[predIdx]
	pst := tr.out[p]
	if pst == nil {
		return "false"
	}
	last := p.Instrs[len(p.Instrs)-1]
	if ifi, ok := last.(*ssa.If); ok {
		if p.Succs[0] == b && p.Succs[1] == b {
			return pst.reach
		}
		c := tr.val(ifi.Cond).T
		if p.Succs[0] == b {
			return and(pst.reach, c)
		}
		return and(pst.reach, tr.boolNot(c))
	}
	return pst.reach
}

func (tr *FnTrans) enterBlock(b *ssa.BasicBlock) *BState {
	if b.Index == 0 {
		st := &BState{reach: "true", heap: tr.entryHeap.child(), ac: "ac0", lastNow: tr.smt.fresh("now_at_entry", "Int")}
		tr.in[b] = st
		return st
	}
	var conds []string
	var heaps []*Heap
	var idxs []int
	for i, p := range b.Preds {
		if tr.backEdge[[2]int{p.Index, b.Index}] {
			continue
		}
		if tr.out[p] == nil {
			continue
		}
		c := tr.edgeCondFor(b, i)
		if c == "false" {
			continue
		}
		conds = append(conds, tr.smt.define(fmt.Sprintf("edge_%d_%d", p.Index, b.Index), "Bool", c))
		heaps = append(heaps, tr.out[p].heap)
		idxs = append(idxs, i)
	}
	if len(conds) == 0 {
		return nil
	}
	reach := tr.smt.define(fmt.Sprintf("reach_%d", b.Index), "Bool", or(conds...))
	st := &BState{reach: reach, heap: mergeHeaps(tr.smt, heaps, conds)}
	{
		// allocation counter at the join: the value of the taken edge
		acc := ""
		for k := len(idxs) - 1; k >= 0; k-- {
			a := tr.out[b.Preds[idxs[k]]].ac
			if acc == "" {
				acc = a
			} else if a != acc {
				acc = fmt.Sprintf("(ite %s %s %s)", conds[k], a, acc)
			}
		}
		st.ac = tr.smt.define("ac", "Int", acc)
		ln := ""
		mixed := false
		for k := len(idxs) - 1; k >= 0; k-- {
			a := tr.out[b.Preds[idxs[k]]].lastNow
			if a == "" {
				mixed = true
				break
			}
			if ln == "" {
				ln = a
			} else if a != ln {
				ln = fmt.Sprintf("(ite %s %s %s)", conds[k], a, ln)
			}
		}
		if !mixed && ln != "" {
			st.lastNow = tr.smt.define("lastnow", "Int", ln)
		}
	}
	tr.in[b] = st

	phiVal := func(phi *ssa.Phi) Val {
		var acc string
		for k := len(idxs) - 1; k >= 0; k-- {
			v := tr.val(phi.Edges[idxs[k]]).T
			if acc == "" {
				acc = v
			} else if v != acc {
				acc = fmt.Sprintf("(ite %s %s %s)", conds[k], v, acc)
			}
		}
		return Val{T: tr.smt.define("phi_"+phi.Name(), tr.smt.sortOf(phi.Type()), acc), Ty: phi.Type()}
	}

	if ord, isLoop := tr.loopOf[b]; isLoop {
		tr.loopHeader(b, ord, st, phiVal)
		return st
	}
	for _, in := range b.Instrs {
		phi, ok := in.(*ssa.Phi)
		if !ok {
			break
		}
		tr.vals[phi] = phiVal(phi)
	}
	return st
}

func (tr *FnTrans) loopSpec(ord int) *LoopSpec {
	if tr.c == nil {
		return nil
	}
	return tr.c.Loops[ord]
}

func (tr *FnTrans) loopHeader(h *ssa.BasicBlock, ord int, st *BState, phiVal func(*ssa.Phi) Val) {
	spec := tr.loopSpec(ord)
	var phis []*ssa.Phi
	for _, in := range h.Instrs {
		if phi, ok := in.(*ssa.Phi); ok {
			phis = append(phis, phi)
		} else {
			break
		}
	}
	pos := token.NoPos
	for _, in := range h.Instrs {
		if in.Pos().IsValid() {
			pos = in.Pos()
			break
		}
	}
	// invariant on entry
	over := map[string]Val{}
	entryVals := map[*ssa.Phi]Val{}
	for _, phi := range phis {
		v := phiVal(phi)
		entryVals[phi] = v
		if phi.Comment != "" {
			over[phi.Comment] = v
		}
	}
	if spec != nil {
		env := tr.envAt(h, 0, st.heap, tr.entryHeap)
		env.override = over
		for _, inv := range spec.Invariants {
			tr.oblige("inv-init", fmt.Sprintf("loop %d invariant on entry: %s", ord, inv.Src), st.reach, env.evalGoal(inv.E), pos)
		}
	}
	// automatic invariant of range-over-slice loops: -1 <= rangeindex < max(len, 0) or rangeindex == -1
	type autoInv struct {
		phi *ssa.Phi
		n   ssa.Value
	}
	var autos []autoInv
	for _, phi := range phis {
		if phi.Comment != "rangeindex" {
			continue
		}
		// pattern:  t = phi + 1 ; c = t < n ; if c
		for _, in := range h.Instrs {
			add, ok := in.(*ssa.BinOp)
			if !ok || add.Op != token.ADD || add.X != phi {
				continue
			}
			for _, in2 := range h.Instrs {
				cmp, ok := in2.(*ssa.BinOp)
				if ok && cmp.Op == token.LSS && cmp.X == add {
					if _, defined := tr.vals[cmp.Y]; defined || isConst(cmp.Y) {
						autos = append(autos, autoInv{phi, cmp.Y})
					}
				}
			}
		}
	}
	autoTerm := func(idx string, a autoInv) string {
		n := tr.val(a.n).T
		m1 := tr.smt.intLit(big.NewInt(-1), 64)
		return and(tr.ivLe(m1, idx), or(tr.ivLt(idx, n), fmt.Sprintf("(= %s %s)", idx, m1)))
	}
	for _, a := range autos {
		tr.oblige("inv-init", fmt.Sprintf("loop %d: range index within bounds on entry", ord), st.reach, autoTerm(entryVals[a.phi].T, a), pos)
	}
	tr.autoInvs[h] = func(idx string, k int) string { return autoTerm(idx, autos[k]) }
	tr.autoPhis[h] = nil
	for _, a := range autos {
		tr.autoPhis[h] = append(tr.autoPhis[h], a.phi)
	}
	// ghost state of a range-over-map loop headed here: unknown at the head of an arbitrary iteration
	for _, in := range h.Instrs {
		if nx, ok := in.(*ssa.Next); ok {
			if rg, ok := nx.Iter.(*ssa.Range); ok {
				if mt, ok := rg.X.Type().Underlying().(*types.Map); ok {
					if _, tracked := tr.rangeVisited[rg]; tracked {
						domS := domSort(tr.smt.sortOf(mt.Key()))
						tr.rangeVisited[rg] = tr.smt.fresh("visited_loop", domS)
					}
				}
			}
		}
	}
	// earlier iterations may have allocated: the state at the loop head is as of a later counter
	{
		nac := tr.smt.fresh("ac_loop", "Int")
		tr.assume(st.reach, fmt.Sprintf("(>= %s %s)", nac, st.ac), "allocation counter only grows")
		st.ac = nac
		tr.curState = st
	}
	// havoc
	preLoopHeap := st.heap
	body := tr.loopBody[h]
	mod, all := tr.modifiedIn(body)
	loopObjs := tr.loopObjs
	if all {
		st.heap = tr.newRoot()
	} else {
		st.heap = st.heap.child()
		var ks []string
		for k := range mod {
			ks = append(ks, k)
		}
		sort.Strings(ks)
		pureFn := tr.c != nil && tr.c.LoopFrames && tr.fnIsPure()
		for _, k := range ks {
			oldT := preLoopHeap.lookup(k)
			nw := tr.freshHeap("Hloop_"+heapKey(k), st.heap.arraySort(k))
			st.heap.set(k, nw)
			if pureFn {
				// the function writes only memory it allocated itself: objects that existed on entry
				// keep their contents through the loop (instantiated at the addresses read later)
				ff := &frameFact{guard: st.reach, old: oldT, nw: nw, changedOf: func(r string) string {
					return fmt.Sprintf("(>= (rootloc %s) ac0)", r)
				}}
				tr.heapAnc[nw] = append([]*frameFact{ff}, tr.heapAnc[oldT]...)
			}
		}
		// local variables declared before the loop and assigned inside it: only their own cells change
		tr.curState = st
		for _, al := range loopObjs {
			av, ok := tr.vals[al]
			if !ok {
				continue
			}
			et := al.Type().Underlying().(*types.Pointer).Elem()
			paths := tr.loopObjPaths[al]
			whole := false
			for _, p := range paths {
				if len(p) == 0 {
					whole = true
				}
			}
			if whole || len(paths) == 0 {
				v := tr.introduce("lpvar_"+al.Comment, et, st.reach, "loop-havoc of local variable")
				tr.store(st.heap, av.T, et, v.T)
				continue
			}
			// only the fields the loop assigns
			for _, p := range paths {
				addr, ft := av.T, et
				okPath := true
				for _, fi := range p {
					stt, isStruct := ft.Underlying().(*types.Struct)
					if !isStruct || fi >= stt.NumFields() {
						okPath = false
						break
					}
					addr = tr.fldAddr(addr, stt, fi)
					ft = stt.Field(fi).Type()
				}
				if !okPath {
					v := tr.introduce("lpvar_"+al.Comment, et, st.reach, "loop-havoc of local variable")
					tr.store(st.heap, av.T, et, v.T)
					break
				}
				v := tr.introduce("lpfld_"+al.Comment, ft, st.reach, "loop-havoc of assigned field")
				tr.store(st.heap, addr, ft, v.T)
			}
		}
	}
	tr.assumeStable(st, preLoopHeap, st.heap)
	tr.preserveCaptured(st, preLoopHeap, st.heap)
	tr.assumeGlobalInvs(st.reach, st.heap)
	{
		// local variables the loop does not assign keep their value
		assigned := map[*ssa.Alloc]bool{}
		for _, al := range loopObjs {
			assigned[al] = true
		}
		for _, al := range tr.allocs {
			if assigned[al] && !tr.escapeOf(al) {
				// a struct variable of which the loop assigns only some fields: the others keep their value
				v, ok := tr.vals[al]
				paths := tr.loopObjPaths[al]
				whole := len(paths) == 0
				for _, p := range paths {
					if len(p) == 0 {
						whole = true
					}
				}
				if ok && !whole {
					var walk func(addr string, t types.Type, path []int)
					walk = func(addr string, t types.Type, path []int) {
						for _, p := range paths {
							if len(p) == len(path) {
								same := true
								for i := range p {
									if p[i] != path[i] {
										same = false
									}
								}
								if same {
									return // assigned in the loop
								}
							}
						}
						if stt, isStruct := t.Underlying().(*types.Struct); isStruct {
							for i := 0; i < stt.NumFields(); i++ {
								walk(tr.fldAddr(addr, stt, i), stt.Field(i).Type(), append(append([]int{}, path...), i))
							}
							return
						}
						tr.stableCells(st, addr, t, preLoopHeap, st.heap)
					}
					walk(v.T, al.Type().Underlying().(*types.Pointer).Elem(), nil)
				}
				continue
			}
			if assigned[al] || tr.escapeOf(al) {
				continue
			}
			if v, ok := tr.vals[al]; ok {
				et := al.Type().Underlying().(*types.Pointer).Elem()
				if at, isArr := et.Underlying().(*types.Array); isArr && at.Len() > maxArrayUnfold {
					continue
				}
				tr.stableCells(st, v.T, et, preLoopHeap, st.heap)
			}
		}
	}
	tr.curState = st
	over2 := map[string]Val{}
	for _, phi := range phis {
		v := tr.introduce("lp_"+phi.Name()+"_"+phi.Comment, phi.Type(), st.reach, "loop-havoc")
		tr.vals[phi] = v
		if isInteger(phi.Type()) {
			tr.idxCands = append(tr.idxCands, v)
		}
		if phi.Comment != "" {
			over2[phi.Comment] = v
		}
	}
	for k, a := range autos {
		tr.assume(st.reach, autoTerm(tr.vals[a.phi].T, autos[k]), fmt.Sprintf("loop %d range index bounds", ord))
	}
	kind := "true"
	if len(autos) > 0 {
		kind = "range-bounds"
	}
	if spec != nil && len(spec.Invariants) > 0 {
		kind = "invariant"
		frozen := st.heap
		st.heap = st.heap.child()
		env := tr.envAt(h, len(phis), frozen, tr.entryHeap)
		env.override = over2
		for _, inv := range spec.Invariants {
			tr.assumeHyp(env, inv.E, st.reach, fmt.Sprintf("loop %d invariant", ord))
		}
	}
	tr.reinstantiate()
	tr.loopInfo[ord] = kind
}

// fnIsPure: the function (syntactically) writes only memory it allocated itself and calls only pure callees.
func (tr *FnTrans) fnIsPure() bool {
	if tr.pureKnown {
		return tr.pureVal
	}
	tr.pureKnown = true
	frameEng = tr.eng
	if tr.c != nil && (tr.c.Pure || (tr.c.ModSet && len(tr.c.Modifies) == 0)) {
		// declared by the contract (checked syntactically as frame:pure, or explicitly trusted)
		tr.pureVal = true
		return true
	}
	tr.pureVal = len(tr.purityOf(tr.fn, 0)) == 0
	return tr.pureVal
}

// rootAlloc returns the local variable an address lies in (through field and constant-index selection).
func rootAlloc(v ssa.Value) *ssa.Alloc {
	for d := 0; d < 20; d++ {
		switch x := v.(type) {
		case *ssa.Alloc:
			return x
		case *ssa.FieldAddr:
			v = x.X
		case *ssa.IndexAddr:
			if _, isPtr := x.X.Type().Underlying().(*types.Pointer); !isPtr {
				return nil
			}
			v = x.X
		default:
			return nil
		}
	}
	return nil
}

// modifiedIn computes the heap cell sorts written inside a set of blocks.
func (tr *FnTrans) modifiedIn(blocks []*ssa.BasicBlock) (map[string]bool, bool) {
	mod := map[string]bool{}
	all := false
	tr.curLoopBlocks = map[*ssa.BasicBlock]bool{}
	for _, b := range blocks {
		tr.curLoopBlocks[b] = true
	}
	defer func() { tr.curLoopBlocks = nil }()
	tr.loopObjs = nil
	tr.loopObjPaths = map[*ssa.Alloc][][]int{}
	seenObj := map[*ssa.Alloc]bool{}
	for _, b := range blocks {
		for _, in := range b.Instrs {
			switch x := in.(type) {
			case *ssa.Store:
				if root := rootAlloc(x.Addr); root != nil {
					if tr.curLoopBlocks[root.Block()] {
						continue // variable declared inside the loop: (re)initialised in every iteration
					}
					if !seenObj[root] {
						seenObj[root] = true
						tr.loopObjs = append(tr.loopObjs, root)
					}
					// field path from the variable to the stored cell (outermost first); an index step
					// makes it the whole variable
					var path []int
					whole := false
					for cur := x.Addr; cur != ssa.Value(root); {
						switch y := cur.(type) {
						case *ssa.FieldAddr:
							path = append([]int{y.Field}, path...)
							cur = y.X
						default:
							whole = true
							cur = root
						}
					}
					if whole {
						path = []int{}
					}
					if path == nil {
						path = []int{}
					}
					tr.loopObjPaths[root] = append(tr.loopObjPaths[root], path)
					continue
				}
				tr.cellSorts(x.Val.Type(), mod)
			case *ssa.MapUpdate:
				mt := x.Map.Type().Underlying().(*types.Map)
				ks, vs := tr.smt.sortOf(mt.Key()), tr.smt.sortOf(mt.Elem())
				mod[domSort(ks)] = true
				mod[fmt.Sprintf("(Array %s %s)", ks, vs)] = true
			case ssa.CallInstruction:
				m, a := tr.callEffects(x)
				for k := range m {
					mod[k] = true
				}
				if a {
					all = true
				}
			}
		}
	}
	return mod, all
}

func (tr *FnTrans) instr(st *BState, in ssa.Instruction) {
	switch x := in.(type) {
	case *ssa.DebugRef:
	case *ssa.Phi:
		// handled on block entry
	case *ssa.Alloc:
		addr := tr.newLoc(x.Block())
		et := x.Type().Underlying().(*types.Pointer).Elem()
		if at, ok := et.Underlying().(*types.Array); ok && at.Len() > maxArrayUnfold {
			tr.note("large array allocation: contents left unconstrained")
		} else {
			tr.store(st.heap, addr, et, tr.smt.zero(et))
		}
		tr.vals[x] = Val{T: addr, Ty: x.Type()}
		tr.allocs = append(tr.allocs, x)
	case *ssa.BinOp:
		a, b := tr.val(x.X), tr.val(x.Y)
		var t string
		if nt, ok := tr.nilCompare(x, a, b); ok {
			t = nt
		} else {
			t = tr.binop(x.Op, a, b, x.Type(), st, x.Pos())
		}
		tr.vals[x] = Val{T: tr.smt.define(x.Name(), tr.smt.sortOf(x.Type()), t), Ty: x.Type()}
	case *ssa.UnOp:
		tr.unop(st, x)
	case *ssa.Call:
		v := tr.doCall(st, x)
		tr.vals[x] = v
	case *ssa.Go:
		tr.doCall(st, x)
		tr.note("go statement: goroutine body is not part of this function's proof")
	case *ssa.Defer:
		tr.defers = append(tr.defers, x)
	case *ssa.RunDefers:
		for i := len(tr.defers) - 1; i >= 0; i-- {
			d := tr.defers[i]
			switch {
			case d.Block() == x.Block() || d.Block().Dominates(x.Block()):
				tr.doCall(st, d)
			case tr.in[d.Block()] != nil:
				// a defer statement that only some paths to this return executed: its effects may
				// or may not happen; be conservative and forget the heap — unless the deferred
				// callee is known not to write memory the proof reads (mutex unlocks, logging)
				if tr.eng.isPureCallee(calleeName(d.Common())) {
					continue
				}
				st.heap = tr.newRoot()
				tr.note("conditionally executed defer: heap forgotten at function exit")
			}
		}
	case *ssa.ChangeInterface:
		v := tr.val(x.X)
		tr.vals[x] = Val{T: v.T, Ty: x.Type()}
	case *ssa.ChangeType:
		v := tr.val(x.X)
		tr.vals[x] = Val{T: tr.conv(v, x.Type()), Ty: x.Type()}
	case *ssa.Convert:
		v := tr.val(x.X)
		t := tr.conv(v, x.Type())
		tr.vals[x] = Val{T: tr.smt.define(x.Name(), tr.smt.sortOf(x.Type()), t), Ty: x.Type()}
	case *ssa.MultiConvert:
		v := tr.val(x.X)
		tr.vals[x] = Val{T: tr.conv(v, x.Type()), Ty: x.Type()}
	case *ssa.Extract:
		tup := tr.val(x.Tuple)
		if x.Index >= len(tup.Tuple) {
			panic(unsupported("extract from non-tuple"))
		}
		v := tup.Tuple[x.Index]
		v.Ty = x.Type()
		tr.vals[x] = v
	case *ssa.Field:
		v := tr.val(x.X)
		name := tr.smt.sortOf(x.X.Type())
		tr.vals[x] = Val{T: fmt.Sprintf("(%s_f%d %s)", name, x.Field, v.T), Ty: x.Type()}
	case *ssa.FieldAddr:
		v := tr.val(x.X)
		tr.safety("nil", "nil dereference in field access", st, fmt.Sprintf("(not (= %s nil))", v.T), x.Pos())
		stt := x.X.Type().Underlying().(*types.Pointer).Elem().Underlying().(*types.Struct)
		tr.vals[x] = Val{T: tr.fldAddr(v.T, stt, x.Field), Ty: x.Type()}
	case *ssa.IndexAddr:
		tr.indexAddr(st, x)
	case *ssa.Index:
		tr.index(st, x)
	case *ssa.Lookup:
		tr.lookup(st, x)
	case *ssa.MakeInterface:
		v := tr.val(x.X)
		tr.vals[x] = Val{T: tr.makeIface(v, st.reach), Ty: x.Type()}
	case *ssa.MakeClosure:
		n := tr.newLoc(x.Block())
		tr.vals[x] = Val{T: n, Ty: x.Type()}
		tr.closures[n] = x
	case *ssa.MakeMap:
		m := tr.newLoc(in.Block())
		mt := x.Type().Underlying().(*types.Map)
		ks := tr.smt.sortOf(mt.Key())
		domS := domSort(ks)
		cur := st.heap.lookup(domS)
		st.heap.set(domS, tr.smt.define("Hdom", st.heap.arraySort(domS), fmt.Sprintf("(store %s %s ((as const %s) false))", cur, m, domS)))
		tr.vals[x] = Val{T: m, Ty: x.Type()}
	case *ssa.MakeChan:
		tr.vals[x] = Val{T: tr.newLoc(in.Block()), Ty: x.Type()}
	case *ssa.MakeSlice:
		l, c := tr.toIdx(tr.val(x.Len)), tr.toIdx(tr.val(x.Cap))
		tr.safety("makelen", "make: negative or inconsistent length", st, and(tr.ivLe(tr.lit64(0), l), tr.ivLe(l, c)), x.Pos())
		tr.assume(st.reach, tr.ivLe(c, tr.lit64(1<<48)), "make: runtime allocation limit")
		tr.vals[x] = Val{T: tr.smt.define(x.Name(), "Slice", fmt.Sprintf("(mkslice %s %s %s %s)", tr.newLoc(x.Block()), tr.lit64(0), l, c)), Ty: x.Type()}
	case *ssa.MapUpdate:
		m := tr.val(x.Map)
		tr.safety("nil", "assignment to entry in nil map", st, fmt.Sprintf("(not (= %s nil))", m.T), x.Pos())
		mt := x.Map.Type().Underlying().(*types.Map)
		k, v := tr.val(x.Key), tr.val(x.Value)
		tr.keyCand(k)
		ks, vs := tr.smt.sortOf(mt.Key()), tr.smt.sortOf(mt.Elem())
		domS := domSort(ks)
		valS := fmt.Sprintf("(Array %s %s)", ks, vs)
		cd, cv := st.heap.lookup(domS), st.heap.lookup(valS)
		st.heap.set(domS, tr.smt.define("Hdom", st.heap.arraySort(domS), fmt.Sprintf("(store %s %s (store (select %s %s) %s true))", cd, m.T, cd, m.T, k.T)))
		st.heap.set(valS, tr.smt.define("Hmval", st.heap.arraySort(valS), fmt.Sprintf("(store %s %s (store (select %s %s) %s %s))", cv, m.T, cv, m.T, k.T, v.T)))
	case *ssa.Next:
		tup := x.Type().(*types.Tuple)
		var vs []Val
		for i := 0; i < tup.Len(); i++ {
			et := tup.At(i).Type()
			if b, ok := et.(*types.Basic); ok && b.Kind() == types.Invalid {
				// a component the loop does not use (for k := range m): go/ssa gives it no type
				vs = append(vs, Val{T: "false", Ty: types.Typ[types.Bool]})
				continue
			}
			vs = append(vs, tr.introduce(fmt.Sprintf("%s_%d", x.Name(), i), et, st.reach, "range-next"))
		}
		// ranging over a map yields keys the map holds, with the values it holds for them
		if rg, ok := x.Iter.(*ssa.Range); ok && len(vs) == 3 {
			if mt, isMap := rg.X.Type().Underlying().(*types.Map); isMap {
				m := tr.val(rg.X)
				ks, es := tr.smt.sortOf(mt.Key()), tr.smt.sortOf(mt.Elem())
				dom := fmt.Sprintf("(select %s %s)", st.heap.lookup(domSort(ks)), m.T)
				facts := []string{fmt.Sprintf("(not (= %s nil))", m.T)}
				if tup.At(1).Type() == types.Typ[types.Invalid] {
					// the loop ignores the key: the value still belongs to some key of the map
					vs[1] = tr.introduce(x.Name()+"_key", mt.Key(), st.reach, "key of the value a range loop yields")
				}
				{
					facts = append(facts, fmt.Sprintf("(select %s %s)", dom, vs[1].T))
					tr.keyCand(vs[1])
					if b, isB := tup.At(2).Type().(*types.Basic); !isB || b.Kind() != types.Invalid {
						vals := fmt.Sprintf("(select %s %s)", st.heap.lookup(fmt.Sprintf("(Array %s %s)", ks, es)), m.T)
						facts = append(facts, fmt.Sprintf("(= %s (select %s %s))", vs[2].T, vals, vs[1].T))
					}
				}
				tr.assume(and(st.reach, vs[0].T), and(facts...), "range over a map yields its own keys and values")
				if before, ok := tr.rangeVisited[rg]; ok {
					// each key is yielded at most once ...
					tr.assume(and(st.reach, vs[0].T), fmt.Sprintf("(not (select %s %s))", before, vs[1].T), "range over a map yields every key at most once")
					domS := domSort(ks)
					after := tr.smt.define("visited", domS, fmt.Sprintf("(ite %s (store %s %s true) %s)", vs[0].T, before, vs[1].T, before))
					tr.rangeVisited[rg] = after
					// ... and when the iteration ends every key that was in the map when it started and
					// is still there has been yielded (instantiated at the key terms the generator knows)
					dom0, domNow, done, reach := tr.rangeDom0[rg], dom, vs[0].T, st.reach
					inst := func(cands []Val) {
						for _, c := range tr.candidatesOf(cands, ks) {
							tr.assume(and(reach, tr.boolNot(done)), fmt.Sprintf("(=> (and (select %s %s) (select %s %s)) (select %s %s))", dom0, c, domNow, c, after, c), "a finished range over a map has yielded every key")
						}
					}
					tr.wantTy = mt.Key()
					inst(tr.idxCands)
					tr.wantTy = nil
					kt := mt.Key()
					tr.reinst = append(tr.reinst, func(cands []Val) {
						prev := tr.wantTy
						tr.wantTy = kt
						inst(cands)
						tr.wantTy = prev
					})
				}
			}
		}
		tr.vals[x] = Val{Tuple: vs, Ty: x.Type()}
	case *ssa.Range:
		tr.vals[x] = Val{T: "nil", Ty: x.Type()}
		if mt, ok := x.X.Type().Underlying().(*types.Map); ok {
			// ghost state of the iteration: the set of keys already yielded (empty), and the key
			// set of the map when the iteration starts
			ks := tr.smt.sortOf(mt.Key())
			domS := domSort(ks)
			m := tr.val(x.X)
			tr.rangeVisited[x] = fmt.Sprintf("((as const %s) false)", domS)
			tr.rangeDom0[x] = tr.smt.define("rangedom", domS, fmt.Sprintf("(select %s %s)", st.heap.lookup(domS), m.T))
		}
	case *ssa.Select:
		v := tr.introduce(x.Name(), x.Type(), st.reach, "select")
		if len(v.Tuple) > 0 {
			lo := int64(0)
			if !x.Blocking {
				lo = -1
			}
			idx := v.Tuple[0]
			tr.assume(st.reach, and(tr.ivLe(tr.lit64(lo), idx.T), tr.ivLt(idx.T, tr.lit64(int64(len(x.States))))), "select picks one of its cases")
			// each case is an observation point that happens exactly when it is the one picked
			recvN := 0
			for i, sc := range x.States {
				picked := and(st.reach, fmt.Sprintf("(= %s %s)", idx.T, tr.lit64(int64(i))))
				if sc.Dir == types.SendOnly {
					tr.eventSite(st, eventKey{x, i}, "send", []Val{tr.val(sc.Chan), tr.val(sc.Send)}, []string{"ch", "x"}, nil, nil, picked, sc.Pos)
				} else {
					var res []Val
					if 2+recvN < len(v.Tuple) {
						res = []Val{v.Tuple[2+recvN], v.Tuple[1]}
					}
					recvN++
					tr.eventSite(st, eventKey{x, i}, "recv", []Val{tr.val(sc.Chan)}, []string{"ch"}, res, []string{"res", "ok"}, picked, sc.Pos)
				}
			}
		}
		tr.vals[x] = v
	case *ssa.Send:
		tr.eventSite(st, eventKey{x, -1}, "send", []Val{tr.val(x.Chan), tr.val(x.X)}, []string{"ch", "x"}, nil, nil, st.reach, x.Pos())
	case *ssa.Slice:
		tr.sliceOp(st, x)
	case *ssa.SliceToArrayPointer:
		v := tr.val(x.X)
		n := x.Type().Underlying().(*types.Pointer).Elem().Underlying().(*types.Array).Len()
		tr.safety("slice", "slice to array pointer: length too short", st, tr.ivLe(tr.lit64(n), fmt.Sprintf("(slen %s)", v.T)), x.Pos())
		tr.note("slice-to-array-pointer conversion modelled with a fresh pointer")
		tr.vals[x] = tr.introduce(x.Name(), x.Type(), st.reach, "s2ap")
	case *ssa.Store:
		a, v := tr.val(x.Addr), tr.val(x.Val)
		for _, alias := range tr.storeSites[x] {
			// an assignment used as an observation point of the contract
			site := &Site{Callee: "store", Args: []Val{a, v}, ParamNames: []string{"addr", "val"}, Reach: st.reach, Before: st.heap, After: st.heap, Block: tr.curBlock, Index: tr.curIdx, Pos: x.Pos()}
			st.heap = st.heap.child()
			tr.siteByAlias[alias] = site
			for _, sa := range tr.c.Asserts {
				if sa.Alias == alias && !sa.Assume {
					env := tr.envAt(tr.curBlock, tr.curIdx, site.Before, tr.entryHeap)
					lbl := sa.C.Name
					if lbl == "" {
						lbl = alias
					}
					tr.oblige("site-assert["+lbl+"]", "at "+alias+": "+sa.C.Src, st.reach, env.evalGoal(sa.C.E), x.Pos())
				}
			}
		}
		tr.safety("nil", "nil dereference in store", st, fmt.Sprintf("(not (= %s nil))", a.T), x.Pos())
		tr.store(st.heap, a.T, x.Val.Type(), v.T)
	case *ssa.TypeAssert:
		tr.typeAssert(st, x)
	case *ssa.If, *ssa.Jump:
		tr.backEdges(st, in)
	case *ssa.Return:
		tr.doReturn(st, x)
	case *ssa.Panic:
		if !(tr.c != nil && tr.c.MayPanic) {
			tr.oblige("safety:panic", "explicit panic is unreachable", st.reach, "false", x.Pos())
		}
	default:
		panic(unsupported(fmt.Sprintf("instruction %T", in)))
	}
}

// eventKey identifies a channel operation: a send / receive instruction, or one case of a select.
type eventKey struct {
	in    ssa.Instruction
	state int
}

// eventSite records a channel operation the contract names (`site send#k as a`, `site recv#k as a`)
// as an observation point and emits the assertions attached to it.
func (tr *FnTrans) eventSite(st *BState, key eventKey, kind string, args []Val, names []string, results []Val, resNames []string, reach string, pos token.Pos) {
	for _, alias := range tr.eventSites[key] {
		site := &Site{Callee: kind, Args: args, ParamNames: names, Results: results, ResNames: resNames, Reach: reach, Before: st.heap, After: st.heap, Block: tr.curBlock, Index: tr.curIdx, Pos: pos}
		st.heap = st.heap.child()
		tr.siteByAlias[alias] = site
		if tr.c == nil {
			continue
		}
		for _, sa := range tr.c.Asserts {
			if sa.Alias != alias {
				continue
			}
			env := tr.envAt(tr.curBlock, tr.curIdx+1, site.Before, tr.entryHeap)
			lbl := sa.C.Name
			if lbl == "" {
				lbl = alias
			}
			if sa.Assume {
				tr.assume(reach, env.evalHyp(sa.C.E), "ghost definition at "+alias+": "+sa.C.Src)
				tr.usedSpecs["ghost definition (each execution of the site defines the ghost function at a new argument): "+tr.name+": "+sa.C.Src] = true
				continue
			}
			tr.oblige("site-assert["+lbl+"]", "at "+alias+": "+sa.C.Src, reach, env.evalGoal(sa.C.E), pos)
		}
	}
}

// nilCompare handles == / != against the nil constant for slices and interfaces, where Go compares
// only the data pointer / the dynamic type.
func (tr *FnTrans) nilCompare(x *ssa.BinOp, a, b Val) (string, bool) {
	if x.Op != token.EQL && x.Op != token.NEQ {
		return "", false
	}
	isNilConst := func(v ssa.Value) bool {
		c, ok := v.(*ssa.Const)
		return ok && c.Value == nil
	}
	var other Val
	switch {
	case isNilConst(x.Y):
		other = a
	case isNilConst(x.X):
		other = b
	default:
		return "", false
	}
	var t string
	switch other.Ty.Underlying().(type) {
	case *types.Slice:
		t = fmt.Sprintf("(= (sbase %s) nil)", other.T)
	case *types.Interface:
		t = fmt.Sprintf("(= (itag %s) 0)", other.T)
	default:
		return "", false
	}
	if x.Op == token.NEQ {
		t = tr.boolNot(t)
	}
	return t, true
}

// toIdx converts an integer value to the index sort (64-bit / Int).
func (tr *FnTrans) toIdx(v Val) string {
	if tr.smt.intMode {
		return v.T
	}
	w := intWidth(v.Ty)
	switch {
	case w == 64 || w == 0:
		return v.T
	case isUnsigned(v.Ty):
		return fmt.Sprintf("((_ zero_extend %d) %s)", 64-w, v.T)
	default:
		return fmt.Sprintf("((_ sign_extend %d) %s)", 64-w, v.T)
	}
}

// idxInRange: 0 <= i < n, for an index whose Go type may be unsigned 64-bit.
func (tr *FnTrans) idxInRange(i Val, n string) string {
	ix := tr.toIdx(i)
	if !tr.smt.intMode && isUnsigned(i.Ty) && intWidth(i.Ty) == 64 {
		return fmt.Sprintf("(bvult %s %s)", ix, n)
	}
	return and(tr.ivLe(tr.lit64(0), ix), tr.ivLt(ix, n))
}

func (tr *FnTrans) idxLe(i Val, n string) string {
	ix := tr.toIdx(i)
	if !tr.smt.intMode && isUnsigned(i.Ty) && intWidth(i.Ty) == 64 {
		return fmt.Sprintf("(bvule %s %s)", ix, n)
	}
	return and(tr.ivLe(tr.lit64(0), ix), tr.ivLe(ix, n))
}

func (tr *FnTrans) unop(st *BState, x *ssa.UnOp) {
	v := tr.val(x.X)
	switch x.Op {
	case token.MUL:
		if g, ok := x.X.(*ssa.Global); ok && g.Name() == "init$guard" {
			// the package initializer runs its body once: that is the run being verified
			tr.vals[x] = Val{T: "false", Ty: x.Type()}
			return
		}
		tr.safety("nil", "nil dereference in load", st, fmt.Sprintf("(not (= %s nil))", v.T), x.Pos())
		t := tr.load(st.heap, v.T, x.Type(), st.reach, false)
		tr.vals[x] = Val{T: tr.smt.define(x.Name(), tr.smt.sortOf(x.Type()), t), Ty: x.Type()}
	case token.NOT:
		tr.vals[x] = Val{T: tr.boolNot(v.T), Ty: x.Type()}
	case token.SUB:
		if isInteger(x.Type()) {
			var t string
			if tr.smt.intMode {
				t = tr.smt.define("neg", "Int", tr.wrapInt(fmt.Sprintf("(- %s)", v.T), x.Type()))
			} else {
				t = fmt.Sprintf("(bvneg %s)", v.T)
			}
			tr.vals[x] = Val{T: t, Ty: x.Type()}
		} else {
			tr.vals[x] = Val{T: fmt.Sprintf("(- %s)", v.T), Ty: x.Type()}
		}
	case token.XOR:
		if tr.smt.intMode {
			panic(unsupported("bitwise complement in arith int mode"))
		}
		tr.vals[x] = Val{T: fmt.Sprintf("(bvnot %s)", v.T), Ty: x.Type()}
	case token.ARROW:
		v := tr.introduce(x.Name(), x.Type(), st.reach, "chan-recv")
		tr.vals[x] = v
		res := []Val{v}
		names := []string{"res"}
		if len(v.Tuple) == 2 {
			res, names = v.Tuple, []string{"res", "ok"}
		}
		tr.eventSite(st, eventKey{x, -1}, "recv", []Val{tr.val(x.X)}, []string{"ch"}, res, names, st.reach, x.Pos())
	default:
		panic(unsupported("unary operator " + x.Op.String()))
	}
}

func (tr *FnTrans) indexAddr(st *BState, x *ssa.IndexAddr) {
	base := tr.val(x.X)
	idx := tr.val(x.Index)
	if _, isC := x.Index.(*ssa.Const); !isC && intWidth(idx.Ty) == 64 {
		// an index the code itself uses: a natural instantiation term for quantified facts about slices
		known := false
		for _, c := range tr.idxCands {
			if c.T == idx.T {
				known = true
			}
		}
		if !known {
			tr.idxCands = append(tr.idxCands, idx)
		}
	}
	switch u := x.X.Type().Underlying().(type) {
	case *types.Slice:
		tr.safety("index", "slice index out of range", st, tr.idxInRange(idx, fmt.Sprintf("(slen %s)", base.T)), x.Pos())
		off := tr.ivAdd(fmt.Sprintf("(soff %s)", base.T), tr.toIdx(idx))
		tr.vals[x] = Val{T: tr.smt.define(x.Name(), "Ref", tr.elemAddr(fmt.Sprintf("(sbase %s)", base.T), off)), Ty: x.Type()}
	case *types.Pointer:
		arr := u.Elem().Underlying().(*types.Array)
		tr.safety("nil", "nil array pointer", st, fmt.Sprintf("(not (= %s nil))", base.T), x.Pos())
		tr.safety("index", "array index out of range", st, tr.idxInRange(idx, tr.lit64(arr.Len())), x.Pos())
		tr.vals[x] = Val{T: tr.elemAddr(base.T, tr.toIdx(idx)), Ty: x.Type()}
	default:
		panic(unsupported("IndexAddr on " + x.X.Type().String()))
	}
}

func (tr *FnTrans) index(st *BState, x *ssa.Index) {
	base := tr.val(x.X)
	idx := tr.val(x.Index)
	switch u := x.X.Type().Underlying().(type) {
	case *types.Array:
		tr.safety("index", "array index out of range", st, tr.idxInRange(idx, tr.lit64(u.Len())), x.Pos())
		tr.vals[x] = Val{T: fmt.Sprintf("(select %s %s)", base.T, tr.toIdx(idx)), Ty: x.Type()}
	case *types.Basic:
		tr.safety("index", "string index out of range", st, tr.idxInRange(idx, fmt.Sprintf("(strlen %s)", base.T)), x.Pos())
		tr.vals[x] = Val{T: fmt.Sprintf("(strat %s %s)", base.T, tr.toIdx(idx)), Ty: x.Type()}
	default:
		panic(unsupported("Index on " + x.X.Type().String()))
	}
}

// mapLen: the number of keys of a map, as an uninterpreted function of its key set (0 for nil).
func (tr *FnTrans) mapLen(h *Heap, m Val) string {
	mt := m.Ty.Underlying().(*types.Map)
	ks := tr.smt.sortOf(mt.Key())
	domS := domSort(ks)
	fn := "maplen_" + sanitize(ks)
	tr.smt.declareFun(fn, []string{domS}, tr.smt.intSortW(64))
	return fmt.Sprintf("(ite (= %s nil) %s (%s (select %s %s)))", m.T, tr.lit64(0), fn, h.lookup(domS), m.T)
}

// rangeOfLoop: the range-over-map iteration whose Next instruction heads loop number ord.
func (tr *FnTrans) rangeOfLoop(ord int) *ssa.Range {
	for h, o := range tr.loopOf {
		if o != ord {
			continue
		}
		for _, in := range h.Instrs {
			if nx, ok := in.(*ssa.Next); ok {
				if rg, ok := nx.Iter.(*ssa.Range); ok {
					if _, isMap := rg.X.Type().Underlying().(*types.Map); isMap {
						return rg
					}
				}
			}
		}
	}
	return nil
}

// keyCand: a map key the code itself uses is a natural instantiation term for quantified facts about maps.
func (tr *FnTrans) keyCand(k Val) {
	if b, ok := k.Ty.Underlying().(*types.Basic); !ok || b.Info()&(types.IsString|types.IsInteger) == 0 {
		return
	}
	for _, c := range tr.idxCands {
		if c.T == k.T {
			return
		}
	}
	tr.idxCands = append(tr.idxCands, k)
}

func (tr *FnTrans) lookup(st *BState, x *ssa.Lookup) {
	base := tr.val(x.X)
	if isStringType(x.X.Type()) {
		idx := tr.val(x.Index)
		tr.safety("index", "string index out of range", st, tr.idxInRange(idx, fmt.Sprintf("(strlen %s)", base.T)), x.Pos())
		tr.vals[x] = Val{T: fmt.Sprintf("(strat %s %s)", base.T, tr.toIdx(idx)), Ty: x.Type()}
		return
	}
	// map lookup: abstract, but a function of (map state, key) so repeated lookups agree
	mt := x.X.Type().Underlying().(*types.Map)
	key := tr.val(x.Index)
	tr.keyCand(key)
	ks, vs := tr.smt.sortOf(mt.Key()), tr.smt.sortOf(mt.Elem())
	domS := domSort(ks)
	valS := fmt.Sprintf("(Array %s %s)", ks, vs)
	dom := fmt.Sprintf("(select %s %s)", st.heap.lookup(domS), base.T)
	vals := fmt.Sprintf("(select %s %s)", st.heap.lookup(valS), base.T)
	ok := tr.smt.define(x.Name()+"_ok", "Bool", fmt.Sprintf("(and (not (= %s nil)) (select %s %s))", base.T, dom, key.T))
	v := tr.smt.define(x.Name()+"_v", vs, fmt.Sprintf("(ite %s (select %s %s) %s)", ok, vals, key.T, tr.smt.zero(mt.Elem())))
	if needsWF(mt.Elem(), 0) {
		tr.wf(v, mt.Elem(), st.reach, "map lookup")
	}
	if x.CommaOk {
		tr.vals[x] = Val{Tuple: []Val{{T: v, Ty: mt.Elem()}, {T: ok, Ty: types.Typ[types.Bool]}}, Ty: x.Type()}
	} else {
		tr.vals[x] = Val{T: v, Ty: x.Type()}
	}
}

func (tr *FnTrans) makeIface(v Val, guard string) string {
	if _, isIface := v.Ty.Underlying().(*types.Interface); isIface {
		return v.T
	}
	srt := tr.smt.sortOf(v.Ty)
	box, unbox := tr.smt.boxFn(srt)
	tag := tr.smt.typeTag(v.Ty)
	tr.assume("true", fmt.Sprintf("(= (%s (%s %s)) %s)", unbox, box, v.T, v.T), "box/unbox")
	return fmt.Sprintf("(mkiface %d (%s %s))", tag, box, v.T)
}

func (tr *FnTrans) typeAssert(st *BState, x *ssa.TypeAssert) {
	v := tr.val(x.X)
	var ok, res string
	if _, isIface := x.AssertedType.Underlying().(*types.Interface); isIface {
		name := "impl_" + sanitize(types.TypeString(x.AssertedType, nil))
		tr.smt.declareFun(name, []string{"Int"}, "Bool")
		tr.ifaceTests[name] = x.AssertedType
		ok = fmt.Sprintf("(and (not (= (itag %s) 0)) (%s (itag %s)))", v.T, name, v.T)
		res = v.T
	} else {
		tag := tr.smt.typeTag(x.AssertedType)
		ok = fmt.Sprintf("(= (itag %s) %d)", v.T, tag)
		_, unbox := tr.smt.boxFn(tr.smt.sortOf(x.AssertedType))
		res = fmt.Sprintf("(%s (idata %s))", unbox, v.T)
	}
	okN := tr.smt.define(x.Name()+"_ok", "Bool", ok)
	if x.CommaOk {
		val := tr.smt.define(x.Name()+"_v", tr.smt.sortOf(x.AssertedType), fmt.Sprintf("(ite %s %s %s)", okN, res, tr.smt.zero(x.AssertedType)))
		if needsWF(x.AssertedType, 0) {
			tr.wf(val, x.AssertedType, st.reach, "type assertion")
		}
		tr.vals[x] = Val{Tuple: []Val{{T: val, Ty: x.AssertedType}, {T: okN, Ty: types.Typ[types.Bool]}}, Ty: x.Type()}
		return
	}
	tr.safety("typeassert", "type assertion to "+x.AssertedType.String(), st, okN, x.Pos())
	val := tr.smt.define(x.Name()+"_v", tr.smt.sortOf(x.AssertedType), res)
	if needsWF(x.AssertedType, 0) {
		tr.wf(val, x.AssertedType, st.reach, "type assertion")
	}
	tr.vals[x] = Val{T: val, Ty: x.AssertedType}
}

func (tr *FnTrans) sliceOp(st *BState, x *ssa.Slice) {
	base := tr.val(x.X)
	zero := tr.lit64(0)
	getIdx := func(v ssa.Value) (Val, bool) {
		if v == nil {
			return Val{}, false
		}
		return tr.val(v), true
	}
	lo, hasLo := getIdx(x.Low)
	hi, hasHi := getIdx(x.High)
	mx, hasMax := getIdx(x.Max)
	intT := types.Typ[types.Int]
	switch u := x.X.Type().Underlying().(type) {
	case *types.Slice:
		if !hasLo {
			lo = Val{T: zero, Ty: intT}
		}
		if !hasHi {
			hi = Val{T: fmt.Sprintf("(slen %s)", base.T), Ty: intT}
		}
		capT := fmt.Sprintf("(scap %s)", base.T)
		if !hasMax {
			mx = Val{T: capT, Ty: intT}
		}
		loI, hiI, mxI := tr.toIdx(lo), tr.toIdx(hi), tr.toIdx(mx)
		tr.safety("slice", "slice bounds out of range", st, and(tr.idxLe(lo, hiI), tr.idxLe(hi, mxI), tr.idxLe(mx, capT)), x.Pos())
		t := fmt.Sprintf("(mkslice (sbase %s) %s %s %s)", base.T, tr.ivAdd(fmt.Sprintf("(soff %s)", base.T), loI), tr.ivSub(hiI, loI), tr.ivSub(mxI, loI))
		tr.vals[x] = Val{T: tr.smt.define(x.Name(), "Slice", t), Ty: x.Type()}
	case *types.Basic: // string
		if !hasLo {
			lo = Val{T: zero, Ty: intT}
		}
		ln := fmt.Sprintf("(strlen %s)", base.T)
		if !hasHi {
			hi = Val{T: ln, Ty: intT}
		}
		loI, hiI := tr.toIdx(lo), tr.toIdx(hi)
		tr.safety("slice", "string slice bounds out of range", st, and(tr.idxLe(lo, hiI), tr.idxLe(hi, ln)), x.Pos())
		tr.smt.declareFun("str_sub", []string{"Str", tr.smt.intSortW(64), tr.smt.intSortW(64)}, "Str")
		n := tr.smt.define(x.Name(), "Str", fmt.Sprintf("(str_sub %s %s %s)", base.T, loI, hiI))
		tr.assume(st.reach, fmt.Sprintf("(= (strlen %s) %s)", n, tr.ivSub(hiI, loI)), "substring length")
		tr.vals[x] = Val{T: n, Ty: x.Type()}
	case *types.Pointer:
		arr := u.Elem().Underlying().(*types.Array)
		n := tr.lit64(arr.Len())
		tr.safety("nil", "nil array pointer in slice expression", st, fmt.Sprintf("(not (= %s nil))", base.T), x.Pos())
		if !hasLo {
			lo = Val{T: zero, Ty: intT}
		}
		if !hasHi {
			hi = Val{T: n, Ty: intT}
		}
		if !hasMax {
			mx = Val{T: n, Ty: intT}
		}
		loI, hiI, mxI := tr.toIdx(lo), tr.toIdx(hi), tr.toIdx(mx)
		tr.safety("slice", "slice bounds out of range", st, and(tr.idxLe(lo, hiI), tr.idxLe(hi, mxI), tr.idxLe(mx, n)), x.Pos())
		t := fmt.Sprintf("(mkslice %s %s %s %s)", base.T, loI, tr.ivSub(hiI, loI), tr.ivSub(mxI, loI))
		tr.vals[x] = Val{T: tr.smt.define(x.Name(), "Slice", t), Ty: x.Type()}
	default:
		panic(unsupported("Slice on " + x.X.Type().String()))
	}
}

// backEdges emits the inv-step obligations for every back edge leaving this block.
func (tr *FnTrans) backEdges(st *BState, in ssa.Instruction) {
	b := in.Block()
	tr.out[b] = st
	for _, h := range b.Succs {
		if !tr.backEdge[[2]int{b.Index, h.Index}] {
			continue
		}
		ord := tr.loopOf[h]
		spec := tr.loopSpec(ord)
		predIdx := -1
		for i, p := range h.Preds {
			if p == b {
				predIdx = i
			}
		}
		cond := tr.smt.define(fmt.Sprintf("back_%d_%d", b.Index, h.Index), "Bool", tr.edgeCondFor(h, predIdx))
		for k, phi := range tr.autoPhis[h] {
			tr.oblige("inv-step", fmt.Sprintf("loop %d: range index stays within bounds", ord), cond, tr.autoInvs[h](tr.val(phi.Edges[predIdx]).T, k), in.Pos())
		}
		if spec != nil {
			for _, sa := range spec.StepAsserts {
				env := tr.envAt(b, len(b.Instrs), st.heap, tr.entryHeap)
				// next(v): the value the loop variable v has at the start of the next iteration
				for _, hi := range h.Instrs {
					phi, ok := hi.(*ssa.Phi)
					if !ok {
						break
					}
					if phi.Comment != "" {
						env.vars["next:"+phi.Comment] = tr.val(phi.Edges[predIdx])
						// head(v): the value v had at the start of this iteration
						env.vars["head:"+phi.Comment] = tr.val(phi)
					}
				}
				lbl := sa.Name
				if lbl == "" {
					lbl = fmt.Sprint(ord)
				}
				tr.oblige("step-assert["+lbl+"]", fmt.Sprintf("loop %d, end of iteration: %s", ord, sa.Src), cond, env.evalGoal(sa.E), in.Pos())
			}
		}
		if spec == nil || len(spec.Invariants) == 0 {
			continue
		}
		over := map[string]Val{}
		for _, hi := range h.Instrs {
			phi, ok := hi.(*ssa.Phi)
			if !ok {
				break
			}
			if phi.Comment != "" {
				over[phi.Comment] = tr.val(phi.Edges[predIdx])
			}
		}
		env := tr.envAt(b, len(b.Instrs), st.heap, tr.entryHeap)
		env.override = over
		for _, inv := range spec.Invariants {
			tr.oblige("inv-step", fmt.Sprintf("loop %d invariant preserved: %s", ord, inv.Src), cond, env.evalGoal(inv.E), in.Pos())
		}
	}
}

func (tr *FnTrans) doReturn(st *BState, r *ssa.Return) {
	tr.retCnt++
	k := tr.retCnt
	var res []Val
	for _, v := range r.Results {
		res = append(res, tr.val(v))
	}
	tr.returns = append(tr.returns, retInfo{k, st.reach, res, r})
	if tr.c == nil {
		return
	}
	env := tr.envAt(r.Block(), tr.curIdx, st.heap, tr.entryHeap)
	env.results = res
	env.atReturn = true
	tr.curEnv = env
	defer func() { tr.curEnv = nil }()
	for i, e := range tr.c.Ensures {
		lbl := e.Name
		if lbl == "" {
			lbl = fmt.Sprint(i + 1)
		}
		o := tr.oblige(fmt.Sprintf("ensures[%s]@return", lbl), e.Src, st.reach, env.evalGoal(e.E), r.Pos())
		o.Name = fmt.Sprintf("%s/ensures[%s]@return%d", tr.name, lbl, k)
	}
	if !tr.c.Dead[fmt.Sprintf("return#%d", k)] {
		o := tr.oblige("cover@return", "return is reachable under the contract", st.reach, "true", r.Pos())
		o.Name = fmt.Sprintf("%s/cover@return%d", tr.name, k)
		o.Expect = "sat"
	}
}

type retInfo struct {
	K       int
	Reach   string
	Results []Val
	Instr   *ssa.Return
}

// ---------------------------------------------------------------- calls

func calleeName(cc *ssa.CallCommon) string {
	if cc.IsInvoke() {
		// named after the static interface type of the receiver, so that a method an interface
		// embeds (hash.Hash's Write, from io.Writer) can carry the embedding interface's contract
		if n, ok := cc.Value.Type().(*types.Named); ok {
			if _, isIface := n.Underlying().(*types.Interface); isIface && n.Obj().Pkg() != nil {
				return fmt.Sprintf("(%s.%s).%s", n.Obj().Pkg().Path(), n.Obj().Name(), cc.Method.Name())
			}
		}
		return cc.Method.FullName()
	}
	switch v := cc.Value.(type) {
	case *ssa.Function:
		if o := v.Origin(); o != nil {
			// an instantiation of a generic function: named after the generic declaration
			return o.String()
		}
		return v.String()
	case *ssa.Builtin:
		return "builtin." + v.Name()
	case *ssa.MakeClosure:
		return v.Fn.String()
	case *ssa.UnOp:
		if fa, ok := v.X.(*ssa.FieldAddr); ok {
			st := fa.X.Type().Underlying().(*types.Pointer).Elem().Underlying().(*types.Struct)
			return "field:" + st.Field(fa.Field).Name()
		}
		if g, ok := v.X.(*ssa.Global); ok {
			return "var:" + g.Pkg.Pkg.Path() + "." + g.Name()
		}
	case *ssa.Field:
		st := v.X.Type().Underlying().(*types.Struct)
		return "field:" + st.Field(v.Field).Name()
	case *ssa.Parameter:
		return "param:" + v.Name()
	case *ssa.FreeVar:
		return "freevar:" + v.Name()
	}
	return "dynamic"
}

func siteMatches(full, pat string) bool {
	if full == pat {
		return true
	}
	return strings.HasSuffix(full, "."+pat) || strings.HasSuffix(full, ")."+pat) || strings.HasSuffix(full, ":"+pat) || strings.HasSuffix(full, "/"+pat)
}

// resolveSites maps the contract's site declarations onto call instructions (source order).
func (tr *FnTrans) resolveSites() {
	if tr.c == nil {
		return
	}
	type ci struct {
		in  ssa.CallInstruction
		pos token.Pos
		ord int
	}
	var calls []ci
	n := 0
	for _, b := range tr.fn.Blocks {
		for _, in := range b.Instrs {
			if c, ok := in.(ssa.CallInstruction); ok {
				p := c.Pos()
				if !p.IsValid() {
					p = c.Common().Pos()
				}
				calls = append(calls, ci{c, p, n})
				n++
			}
		}
	}
	sort.SliceStable(calls, func(i, j int) bool {
		if calls[i].pos != calls[j].pos {
			return calls[i].pos < calls[j].pos
		}
		return calls[i].ord < calls[j].ord
	})
	for _, sd := range tr.c.Sites {
		k := 0
		found := false
		if sd.Pattern == "send" || sd.Pattern == "recv" {
			// the k-th channel send / receive in source order (select cases included)
			type ev struct {
				key eventKey
				pos token.Pos
			}
			var evs []ev
			for _, b := range tr.fn.Blocks {
				for _, in := range b.Instrs {
					switch x := in.(type) {
					case *ssa.Send:
						if sd.Pattern == "send" {
							evs = append(evs, ev{eventKey{x, -1}, x.Pos()})
						}
					case *ssa.UnOp:
						if x.Op == token.ARROW && sd.Pattern == "recv" {
							evs = append(evs, ev{eventKey{x, -1}, x.Pos()})
						}
					case *ssa.Select:
						for i, sc := range x.States {
							if (sc.Dir == types.SendOnly) == (sd.Pattern == "send") {
								evs = append(evs, ev{eventKey{x, i}, sc.Pos})
							}
						}
					}
				}
			}
			sort.SliceStable(evs, func(i, j int) bool { return evs[i].pos < evs[j].pos })
			if sd.K >= 1 && sd.K <= len(evs) {
				k := evs[sd.K-1].key
				tr.eventSites[k] = append(tr.eventSites[k], sd.Alias)
				tr.eventAliases[sd.Alias] = true
			} else {
				tr.missingSites = append(tr.missingSites, sd)
			}
			continue
		}
		if strings.HasPrefix(sd.Pattern, "store:") {
			// the k-th assignment (source order) to a field of that name
			fname := strings.TrimPrefix(sd.Pattern, "store:")
			var stores []*ssa.Store
			for _, b := range tr.fn.Blocks {
				for _, in := range b.Instrs {
					if st, ok := in.(*ssa.Store); ok {
						if fa, ok := st.Addr.(*ssa.FieldAddr); ok {
							stt := fa.X.Type().Underlying().(*types.Pointer).Elem().Underlying().(*types.Struct)
							if stt.Field(fa.Field).Name() == fname {
								stores = append(stores, st)
							}
						}
					}
				}
			}
			sort.SliceStable(stores, func(i, j int) bool { return stores[i].Pos() < stores[j].Pos() })
			if sd.K <= len(stores) {
				tr.storeSites[stores[sd.K-1]] = append(tr.storeSites[stores[sd.K-1]], sd.Alias)
				found = true
			}
			if !found {
				tr.missingSites = append(tr.missingSites, sd)
			}
			continue
		}
		if sd.Only {
			n, inLoop := 0, false
			for _, c := range calls {
				if siteMatches(calleeName(c.in.Common()), sd.Pattern) {
					n++
					for _, body := range tr.loopBody {
						for _, bb := range body {
							if bb == c.in.Block() {
								inLoop = true
							}
						}
					}
				}
			}
			var probs []string
			if n != 1 {
				probs = append(probs, fmt.Sprintf("%d calls match %s", n, sd.Pattern))
			}
			if inLoop {
				probs = append(probs, "the call is inside a loop")
			}
			tr.onlyChecks = append(tr.onlyChecks, onlyCheck{sd, probs})
		}
		for _, c := range calls {
			if siteMatches(calleeName(c.in.Common()), sd.Pattern) {
				k++
				if k == sd.K {
					tr.siteDeclOf[c.in] = append(tr.siteDeclOf[c.in], sd.Alias)
					tr.siteInstr[sd.Alias] = c.in
					found = true
					break
				}
			}
		}
		if !found {
			tr.missingSites = append(tr.missingSites, sd)
		}
	}
}

// localType finds the type of a source-level local variable anywhere in the function.
func (tr *FnTrans) localType(name string) (types.Type, bool) {
	if tr.localTypes == nil {
		tr.localTypes = map[string]types.Type{}
		for _, b := range tr.fn.Blocks {
			for _, in := range b.Instrs {
				if d, ok := in.(*ssa.DebugRef); ok {
					if obj, ok := d.Object().(*types.Var); ok && obj != nil && !obj.IsField() && (obj.Pkg() == nil || obj.Parent() != obj.Pkg().Scope()) {
						if _, seen := tr.localTypes[obj.Name()]; !seen {
							tr.localTypes[obj.Name()] = obj.Type()
						}
					}
				}
			}
		}
	}
	t, ok := tr.localTypes[name]
	return t, ok
}

func (tr *FnTrans) ghostLocal(name string, t types.Type) Val {
	if v, ok := tr.ghostLocals[name]; ok {
		return v
	}
	v := tr.introduce("ghostlocal_"+name, t, "false", "local not yet in scope")
	if tr.ghostLocals == nil {
		tr.ghostLocals = map[string]Val{}
	}
	tr.ghostLocals[name] = v
	return v
}

// assumeHyp assumes a contract formula; quantified ones are remembered so that they can be
// instantiated again with index terms that appear later (loop counters, skolem constants).
func (tr *FnTrans) assumeHyp(env *Env, x *Expr, guard, origin string) string {
	t := env.evalHyp(x)
	tr.assume(guard, t, origin)
	if hasQuant(x) {
		tr.qhyps = append(tr.qhyps, &qhyp{env: env, x: x, guard: guard, origin: origin})
	}
	return t
}

// reinstantiate adds, for index terms that became known since the last call (loop counters),
// instances of all quantified hypotheses to the global assumption list.
func (tr *FnTrans) reinstantiate() {
	if len(tr.idxCands) == tr.lastReinst {
		return
	}
	fresh := tr.idxCands[tr.lastReinst:]
	tr.lastReinst = len(tr.idxCands)
	tr.instantiateWith(fresh)
}

func (tr *FnTrans) instantiateWith(cands []Val) {
	for _, q := range tr.qhyps {
		e2 := *q.env
		e2.instOnly = cands
		tr.assume(q.guard, e2.evalHyp(q.x), q.origin+" (instance)")
	}
	for _, f := range tr.reinst {
		f(cands)
	}
}

func (tr *FnTrans) globalCands() []Val {
	if len(tr.clauseCandSet) == 0 {
		lo := len(tr.idxCands) - 10
		if lo < 0 {
			lo = 0
		}
		return tr.idxCands[lo:]
	}
	// the last ten index terms of the code itself, plus every term a contract clause indexes with
	var code, clause []Val
	for _, c := range tr.idxCands {
		if tr.clauseCandSet[c.T] {
			clause = append(clause, c)
		} else {
			code = append(code, c)
		}
	}
	if len(code) > 10 {
		code = code[len(code)-10:]
	}
	if len(clause) > 6 {
		clause = clause[len(clause)-6:]
	}
	return append(code, clause...)
}

// siteFor returns the call-site record for an alias; for a site that has not been translated yet
// (it cannot lie on a path to the current point) a ghost record with called=false is returned.
func (tr *FnTrans) siteFor(alias string) *Site {
	if s, ok := tr.siteByAlias[alias]; ok {
		return s
	}
	ci, ok := tr.siteInstr[alias]
	if !ok && tr.eventAliases[alias] {
		// a channel operation that has not been translated yet: not on any path to here
		if g, ok := tr.ghostSites[alias]; ok {
			return g
		}
		g := &Site{Callee: "event", Reach: "false", Before: tr.entryHeap, After: tr.entryHeap}
		for key, aliases := range tr.eventSites {
			for _, a := range aliases {
				if a != alias {
					continue
				}
				var ch ssa.Value
				isSend := false
				switch x := key.in.(type) {
				case *ssa.Send:
					ch, isSend = x.Chan, true
				case *ssa.UnOp:
					ch = x.X
				case *ssa.Select:
					ch, isSend = x.States[key.state].Chan, x.States[key.state].Dir == types.SendOnly
				}
				if ch == nil {
					continue
				}
				ct := ch.Type().Underlying().(*types.Chan)
				gv := func(n string, t types.Type) Val {
					return tr.introduce("ghost_"+alias+"_"+n, t, "false", "channel operation not on this path")
				}
				g.Args, g.ParamNames = []Val{gv("ch", ch.Type())}, []string{"ch"}
				if isSend {
					g.Args, g.ParamNames = append(g.Args, gv("x", ct.Elem())), []string{"ch", "x"}
				} else {
					g.Results, g.ResNames = []Val{gv("res", ct.Elem()), gv("ok", types.Typ[types.Bool])}, []string{"res", "ok"}
				}
			}
		}
		tr.ghostSites[alias] = g
		return g
	}
	if !ok {
		for _, aliases := range tr.storeSites {
			for _, a := range aliases {
				if a == alias {
					// an assignment site that has not been translated yet: not on any path to here
					if g, ok := tr.ghostSites[alias]; ok {
						return g
					}
					g := &Site{Callee: "store", Reach: "false", Before: tr.entryHeap, After: tr.entryHeap}
					tr.ghostSites[alias] = g
					return g
				}
			}
		}
		for _, sd := range tr.missingSites {
			if sd.Alias == alias {
				if g, ok := tr.ghostSites[alias]; ok {
					return g
				}
				g := &Site{Callee: sd.Pattern, Reach: "false", Before: tr.entryHeap, After: tr.entryHeap, Missing: true}
				tr.ghostSites[alias] = g
				return g
			}
		}
		return nil
	}
	if g, ok := tr.ghostSites[alias]; ok {
		return g
	}
	cc := ci.Common()
	sig := cc.Signature()
	g := &Site{Instr: ci, Callee: calleeName(cc), Reach: "false", Before: tr.entryHeap, After: tr.entryHeap}
	for i, a := range cc.Args {
		g.Args = append(g.Args, tr.introduce(fmt.Sprintf("ghost_%s_a%d", alias, i), a.Type(), "false", "ghost site"))
	}
	if cc.IsInvoke() {
		rv := tr.introduce("ghost_"+alias+"_recv", cc.Value.Type(), "false", "ghost site")
		g.Recv = &rv
	}
	for i := 0; i < sig.Results().Len(); i++ {
		g.Results = append(g.Results, tr.introduce(fmt.Sprintf("ghost_%s_r%d", alias, i), sig.Results().At(i).Type(), "false", "ghost site"))
	}
	g.ParamNames, g.ResNames = sigNames(sig, cc.IsInvoke())
	tr.ghostSites[alias] = g
	return g
}

func sigNames(sig *types.Signature, invoke bool) (params, results []string) {
	if sig.Recv() != nil && !invoke {
		n := sig.Recv().Name()
		if n == "" || n == "_" {
			n = "recv"
		}
		params = append(params, n)
	}
	for i := 0; i < sig.Params().Len(); i++ {
		n := sig.Params().At(i).Name()
		if n == "" || n == "_" {
			n = fmt.Sprintf("arg%d", i)
		}
		params = append(params, n)
	}
	for i := 0; i < sig.Results().Len(); i++ {
		n := sig.Results().At(i).Name()
		if n == "" || n == "_" {
			n = fmt.Sprintf("result%d", i)
			if sig.Results().Len() == 1 {
				n = "result"
			}
		}
		results = append(results, n)
	}
	return
}

// callEffects says which heap cells a call may modify (used for loop havoc and at the call).
func (tr *FnTrans) callEffects(ci ssa.CallInstruction) (map[string]bool, bool) {
	cc := ci.Common()
	mod := map[string]bool{}
	if b, ok := cc.Value.(*ssa.Builtin); ok {
		switch b.Name() {
		case "append", "copy":
			if len(cc.Args) > 0 {
				if sl, ok := cc.Args[0].Type().Underlying().(*types.Slice); ok {
					tr.cellSorts(sl.Elem(), mod)
				}
			}
		case "clear":
			return mod, true
		}
		return mod, false
	}
	name := calleeName(cc)
	if spec := tr.eng.lookupSpec(name, cc); spec != nil && (spec.Pure || (spec.ModSet && len(spec.Modifies) == 0)) {
		return mod, false
	}
	if tr.eng.isPureCallee(name) {
		return mod, false
	}
	if isProtoGetter(cc) != nil {
		return mod, false
	}
	if spec := tr.eng.lookupSpec(name, cc); spec != nil && spec.ModSet && len(spec.Modifies) > 0 {
		if ok := tr.modifiesCellSorts(spec, cc, mod); ok {
			return mod, false
		}
	}
	all := false
	seen := map[types.Type]bool{}
	for _, a := range cc.Args {
		tr.reachableCells(a.Type(), mod, seen, &all, false)
	}
	if cc.IsInvoke() {
		all = true
	} else if mc, isCl := cc.Value.(*ssa.MakeClosure); isCl {
		// a function literal called (or deferred) right here: when its body writes no memory that
		// outlives it (no store through a captured variable, only pure callees) the call changes nothing
		if cf, ok := mc.Fn.(*ssa.Function); ok && len(tr.purityOf(cf, 1)) == 0 {
			tr.usedSpecs["function literal "+cf.Name()+" writes no caller-visible memory (syntactic check of its body)"] = true
			return map[string]bool{}, false
		}
		all = true
	} else if _, isFn := cc.Value.(*ssa.Function); !isFn {
		// function value: captured state unknown
		all = true
	}
	return mod, all
}

func (tr *FnTrans) doCall(st *BState, ci ssa.CallInstruction) Val {
	cc := ci.Common()
	if b, ok := cc.Value.(*ssa.Builtin); ok {
		return tr.builtin(st, ci, b)
	}
	name := calleeName(cc)
	sig := cc.Signature()
	var args []Val
	for _, a := range cc.Args {
		args = append(args, tr.val(a))
	}
	site := &Site{Instr: ci, Callee: name, Args: args, Reach: st.reach, Before: st.heap, Block: tr.curBlock, Index: tr.curIdx, Pos: ci.Pos()}
	st.heap = st.heap.child()
	if cc.IsInvoke() {
		rv := tr.val(cc.Value)
		site.Recv = &rv
		tr.safety("nil", "method call on nil interface", st, fmt.Sprintf("(not (= (itag %s) 0))", rv.T), ci.Pos())
	} else if _, isFn := cc.Value.(*ssa.Function); !isFn {
		if _, isCl := cc.Value.(*ssa.MakeClosure); !isCl {
			fv := tr.val(cc.Value)
			tr.safety("nil", "call of nil function value", st, fmt.Sprintf("(not (= %s nil))", fv.T), ci.Pos())
		}
	}
	site.ParamNames, site.ResNames = sigNames(sig, cc.IsInvoke())
	if mc, isCl := cc.Value.(*ssa.MakeClosure); isCl {
		// a function literal called (or started with go / defer) where it is written: the variables it
		// captures are members of the site too, under their own names, next to its parameters
		if lit, ok := mc.Fn.(*ssa.Function); ok {
			for i, fv := range lit.FreeVars {
				if i < len(mc.Bindings) && fv.Name() != "" && !contains(site.ParamNames, fv.Name()) {
					b := tr.val(mc.Bindings[i])
					if pt, isPtr := mc.Bindings[i].Type().Underlying().(*types.Pointer); isPtr {
						if _, isAlloc := mc.Bindings[i].(*ssa.Alloc); isAlloc {
							// captured by reference: the member is the variable's current value
							b = Val{T: tr.load(site.Before, b.T, pt.Elem(), st.reach, true), Ty: pt.Elem()}
						}
					}
					site.Args = append(site.Args, b)
					site.ParamNames = append(site.ParamNames, fv.Name())
				}
			}
		}
	}
	for _, alias := range tr.siteDeclOf[ci] {
		tr.siteByAlias[alias] = site
	}
	tr.sites[ci] = site

	// site assertions evaluated before the call
	if tr.c != nil {
		for _, alias := range tr.siteDeclOf[ci] {
			for _, sa := range tr.c.Asserts {
				if sa.Alias == alias && !sa.After && !sa.Assume {
					env := tr.envAt(tr.curBlock, tr.curIdx, site.Before, tr.entryHeap)
					lbl := sa.C.Name
					if lbl == "" {
						lbl = alias
					}
					o := tr.oblige("site-assert["+lbl+"]", "at "+alias+": "+sa.C.Src, st.reach, env.evalGoal(sa.C.E), ci.Pos())
					_ = o
				}
			}
		}
	}

	if name == "(time.Duration).Seconds" && len(args) == 1 {
		// d.Seconds() as a real number (floating point is modelled with real arithmetic)
		tr.floatUsed = true
		res := Val{T: tr.smt.define("secs", "F64", fmt.Sprintf("(/ (to_real %s) 1000000000.0)", tr.toMathInt(args[0]))), Ty: sig.Results().At(0).Type()}
		site.Results = []Val{res}
		site.After = st.heap
		tr.usedSpecs["time.Duration.Seconds() = d/1e9 over the reals; float64 arithmetic treated as real arithmetic"] = true
		return res
	}
	spec := tr.eng.lookupSpec(name, cc)
	if getter := isProtoGetter(cc); getter != nil && spec == nil {
		res := tr.protoGetter(st, cc, getter, args[0])
		site.Results = []Val{res}
		site.After = st.heap
		tr.usedSpecs["protobuf getter pattern: (*T).GetX() returns zero for a nil receiver and T.X otherwise"] = true
		return res
	}

	// the callee may allocate: the allocation counter grows
	acBefore := st.ac
	{
		nac := tr.smt.fresh("ac_call", "Int")
		tr.assume(st.reach, fmt.Sprintf("(>= %s %s)", nac, st.ac), "allocation counter only grows")
		st.ac = nac
	}
	// results
	var results []Val
	for i := 0; i < sig.Results().Len(); i++ {
		results = append(results, tr.introduce(fmt.Sprintf("%s_r%d", valueName(ci), i), sig.Results().At(i).Type(), st.reach, "result of "+name))
	}
	site.Results = results

	// heap effect
	pure := tr.eng.isPureCallee(name) || (spec != nil && (spec.Pure || (spec.ModSet && len(spec.Modifies) == 0)))
	if !pure && spec != nil && spec.ModSet && len(spec.Modifies) > 0 {
		tr.applyModifies(st, site, spec, cc)
		if st.heap.root {
			tr.assumeStable(st, site.Before, st.heap)
		}
	} else if !pure {
		mod, all := tr.callEffects(ci)
		if all {
			st.heap = tr.newRoot()
		} else {
			var ks []string
			for k := range mod {
				ks = append(ks, k)
			}
			sort.Strings(ks)
			for _, k := range ks {
				st.heap.set(k, tr.freshHeap("Hcall_"+heapKey(k), st.heap.arraySort(k)))
			}
		}
	}
	if !pure {
		tr.assumeStable(st, site.Before, st.heap)
		tr.preserveLocals(st, site.Before, st.heap)
		tr.assumeGlobalInvs(st.reach, st.heap)
	}
	st.heap = st.heap.child()
	st.heap.asOf = st.ac
	site.After = st.heap
	st.heap = st.heap.child()
	tr.applyDecoded(st, site)

	if name == "time.Now" && len(results) == 1 {
		tr.smt.declareFun("spec_instant", []string{tr.smt.sortOf(results[0].Ty)}, "Int")
		inst := fmt.Sprintf("(spec_instant %s)", results[0].T)
		if st.lastNow != "" {
			tr.assume(st.reach, fmt.Sprintf("(>= %s %s)", inst, st.lastNow), "the clock does not run backwards")
		}
		st.lastNow = tr.smt.define("lastnow", "Int", inst)
		tr.usedSpecs["successive time.Now() readings are non-decreasing (instants)"] = true
	}
	if spec != nil && len(spec.Invokes) > 0 {
		tr.applyInvokes(st, site, spec, cc)
		site.After = st.heap
		st.heap = st.heap.child()
	}
	if spec != nil {
		tr.applySpec(st, site, spec, cc)
		// results the contract declares fresh were allocated during the call
		for i, rn := range site.ResNames {
			for _, f := range spec.Fresh {
				if f == rn || f == fmt.Sprintf("result%d", i) {
					switch results[i].Ty.Underlying().(type) {
					case *types.Pointer, *types.Map:
						tr.assume(st.reach, fmt.Sprintf("(or (= %s nil) (>= (rootloc %s) %s))", results[i].T, results[i].T, acBefore), "fresh result of "+name)
					case *types.Slice:
						b := fmt.Sprintf("(sbase %s)", results[i].T)
						tr.assume(st.reach, fmt.Sprintf("(or (= %s nil) (>= (rootloc %s) %s))", b, b, acBefore), "fresh result of "+name)
					}
				}
			}
		}
	} else {
		tr.abstracted[name]++
	}

	if tr.c != nil {
		for _, alias := range tr.siteDeclOf[ci] {
			for _, sa := range tr.c.Asserts {
				if sa.Alias == alias && sa.Assume {
					env := tr.envAt(tr.curBlock, tr.curIdx+1, site.After, tr.entryHeap)
					tr.assume(st.reach, env.evalHyp(sa.C.E), "ghost definition at "+alias+": "+sa.C.Src)
					tr.usedSpecs["ghost definition (each execution of the site defines the ghost function at a new argument): "+tr.name+": "+sa.C.Src] = true
					continue
				}
				if sa.Alias == alias && sa.After {
					env := tr.envAt(tr.curBlock, tr.curIdx+1, site.After, tr.entryHeap)
					lbl := sa.C.Name
					if lbl == "" {
						lbl = alias
					}
					tr.oblige("site-assert["+lbl+"]", "after "+alias+": "+sa.C.Src, st.reach, env.evalGoal(sa.C.E), ci.Pos())
				}
			}
		}
	}

	switch len(results) {
	case 0:
		return Val{}
	case 1:
		return results[0]
	}
	return Val{Tuple: results, Ty: sig.Results()}
}

func valueName(ci ssa.CallInstruction) string {
	if v := ci.Value(); v != nil {
		return v.Name()
	}
	return "call"
}

// applyInvokes models a callee that calls a function literal handed to it (retry loops, visitors):
// the variables the literal captures by reference and assigns are havocked, whatever else the literal
// may write according to its own contract is havocked, and the literal's postconditions are assumed
// for its last invocation (in the state after the call), provided it was invoked at all. The literal
// is verified separately against that contract as the function Outer$N; its preconditions are
// checked here, in the state in which the callee is entered.
func (tr *FnTrans) applyInvokes(st *BState, site *Site, spec *Contract, cc *ssa.CallCommon) {
	params, _ := sigNames(cc.Signature(), cc.IsInvoke())
	if site.Invoked == nil {
		site.Invoked = map[string]invokedFn{}
	}
	for _, pn := range spec.Invokes {
		ai := -1
		for i, n := range params {
			if n == pn {
				ai = i
			}
		}
		if ai < 0 || ai >= len(cc.Args) {
			continue
		}
		arg := cc.Args[ai]
		if ct, ok := arg.(*ssa.ChangeType); ok {
			arg = ct.X
		}
		mc, _ := arg.(*ssa.MakeClosure)
		var cf *ssa.Function
		if mc != nil {
			cf, _ = mc.Fn.(*ssa.Function)
		}
		inv := invokedFn{Invoked: tr.smt.fresh("invoked_"+pn, "Bool")}
		if cf == nil {
			// not a function literal: nothing is known about what it does
			st.heap = tr.newRoot()
			tr.abstracted["call through function value "+pn+": all memory havoced"]++
			site.Invoked[pn] = inv
			continue
		}
		c2 := tr.eng.byFull[cf.String()]
		// preconditions of the literal, in the state in which the callee starts
		bind := func(h *Heap) map[string]Val {
			vars := map[string]Val{}
			for i, fv := range cf.FreeVars {
				if i >= len(mc.Bindings) {
					continue
				}
				bv := tr.val(mc.Bindings[i])
				if _, isAl := mc.Bindings[i].(*ssa.Alloc); isAl {
					et := fv.Type().Underlying().(*types.Pointer).Elem()
					vars[fv.Name()] = Val{T: tr.load(h, bv.T, et, "true", true), Ty: et}
				} else if pfv, isFV := mc.Bindings[i].(*ssa.FreeVar); isFV && capturedByRef(pfv) {
					et := fv.Type().Underlying().(*types.Pointer).Elem()
					vars[fv.Name()] = Val{T: tr.load(h, bv.T, et, "true", true), Ty: et}
				} else {
					vars[fv.Name()] = bv
				}
			}
			return vars
		}
		if c2 != nil {
			pre := &Env{tr: tr, heap: site.Before, oldHeap: site.Before, vars: bind(site.Before), quiet: true, lets: map[string]*Expr{}}
			if cf.Pkg != nil {
				pre.pkg = cf.Pkg.Pkg
			}
			for _, l := range c2.Lets {
				pre.lets[l.Name] = l.C.E
			}
			for _, r := range c2.Requires {
				tr.oblige("call-pre", fmt.Sprintf("precondition of function literal %s (invoked by %s): %s", cf.Name(), site.Callee, r.Src), st.reach, pre.evalGoal(r.E), site.Pos)
			}
			tr.usedSpecs["function literal "+cf.Name()+" is invoked only by "+site.Callee+", in states that differ from the call state only by the literal's own writes (its preconditions are checked in the call state)"] = true
		}
		// effects: captured variables the literal assigns, and what its contract lets it modify
		for i, fv := range cf.FreeVars {
			if i >= len(mc.Bindings) {
				continue
			}
			writes := false
			for _, b := range cf.Blocks {
				for _, in := range b.Instrs {
					s, ok := in.(*ssa.Store)
					if !ok {
						continue
					}
					// a store to the variable itself or to a field / element of it
					for a := s.Addr; a != nil; {
						if a == ssa.Value(fv) {
							writes = true
						}
						switch y := a.(type) {
						case *ssa.FieldAddr:
							a = y.X
						case *ssa.IndexAddr:
							a = y.X
						default:
							a = nil
						}
					}
				}
			}
			for _, ref := range *fv.Referrers() {
				switch r := ref.(type) {
				case *ssa.Store, *ssa.FieldAddr, *ssa.IndexAddr, *ssa.DebugRef:
				case *ssa.UnOp:
					if r.Op != token.MUL {
						writes = true
					}
				default:
					writes = true // its address goes somewhere else (another literal, a call)
				}
			}
			if !writes {
				continue
			}
			pt, ok := fv.Type().Underlying().(*types.Pointer)
			if !ok {
				continue
			}
			bv := tr.val(mc.Bindings[i])
			nv := tr.introduce("inv_"+fv.Name(), pt.Elem(), st.reach, "assigned by function literal "+cf.Name())
			tr.store(st.heap, bv.T, pt.Elem(), nv.T)
		}
		if c2 == nil || !(c2.Pure || (c2.ModSet && len(c2.Modifies) == 0)) {
			if c2 != nil && c2.ModSet && len(c2.Modifies) > 0 {
				// modifies clauses of the literal are written over its captured variables
				env := &Env{tr: tr, heap: st.heap, oldHeap: site.Before, vars: bind(st.heap), quiet: true}
				if cf.Pkg != nil {
					env.pkg = cf.Pkg.Pkg
				}
				okAll := true
				for _, m := range c2.Modifies {
					a, t, ok := env.addrOf(m.E)
					if !ok {
						okAll = false
						break
					}
					nv := tr.introduce("invmod", t, st.reach, "modified by function literal "+cf.Name())
					tr.store(st.heap, a, t, nv.T)
				}
				if !okAll {
					st.heap = tr.newRoot()
				}
			} else {
				st.heap = tr.newRoot()
				tr.abstracted["function literal "+cf.Name()+" without a frame: all memory havoced"]++
			}
		}
		// results of the last invocation and what the literal guarantees about it
		sig := cf.Signature
		for i := 0; i < sig.Results().Len(); i++ {
			inv.Results = append(inv.Results, tr.introduce(fmt.Sprintf("last_%s_r%d", pn, i), sig.Results().At(i).Type(), st.reach, "result of the last invocation of "+cf.Name()))
		}
		site.Invoked[pn] = inv
		if c2 != nil {
			post := &Env{tr: tr, heap: st.heap, oldHeap: site.Before, vars: bind(st.heap), quiet: true, lets: map[string]*Expr{}, results: inv.Results, atReturn: true}
			if cf.Pkg != nil {
				post.pkg = cf.Pkg.Pkg
			}
			for i := 0; i < sig.Results().Len(); i++ {
				n := sig.Results().At(i).Name()
				if n == "" {
					n = fmt.Sprintf("result%d", i)
				}
				post.resNames = append(post.resNames, n)
			}
			for _, l := range c2.Lets {
				post.lets[l.Name] = l.C.E
			}
			siteIDs := map[string]bool{}
			for _, sd := range c2.Sites {
				siteIDs[sd.Alias] = true
			}
			for _, en := range c2.Ensures {
				if mentions(en.E, siteIDs) || mentionsOld(en.E) {
					continue // speaks about the literal's own calls or about its pre-state: not visible here
				}
				tr.assume(and(st.reach, inv.Invoked), post.evalHyp(en.E), "ensures of function literal "+cf.Name()+" (last invocation): "+en.Src)
			}
		}
	}
}

func mentionsOld(x *Expr) bool {
	if x == nil {
		return false
	}
	if x.Op == "old" {
		return true
	}
	for _, a := range x.A {
		if mentionsOld(a) {
			return true
		}
	}
	return false
}

// calleeEnv builds the environment in which a callee's contract is evaluated at a call site.
func (tr *FnTrans) calleeEnv(site *Site, spec *Contract, cc *ssa.CallCommon) *Env {
	env := &Env{tr: tr, heap: site.After, oldHeap: site.Before, vars: map[string]Val{}, quiet: true, lets: map[string]*Expr{}, invoked: site.Invoked}
	for _, l := range spec.Lets {
		env.lets[l.Name] = l.C.E
	}
	if fn, ok := cc.Value.(*ssa.Function); ok && fn.Pkg != nil {
		env.pkg = fn.Pkg.Pkg
	} else if mc, ok := cc.Value.(*ssa.MakeClosure); ok {
		if cf, ok := mc.Fn.(*ssa.Function); ok && cf.Pkg != nil {
			env.pkg = cf.Pkg.Pkg
		}
	} else if cc.IsInvoke() && cc.Method.Pkg() != nil {
		env.pkg = cc.Method.Pkg()
	}
	for i, n := range site.ParamNames {
		if i < len(site.Args) {
			env.vars[n] = site.Args[i]
		}
	}
	if mc, ok := cc.Value.(*ssa.MakeClosure); ok {
		// a function literal called (or started) right here: its captured variables are the caller's
		if cf, ok := mc.Fn.(*ssa.Function); ok {
			for i, fv := range cf.FreeVars {
				if i >= len(mc.Bindings) {
					continue
				}
				bv := tr.val(mc.Bindings[i])
				byRef := false
				switch b := mc.Bindings[i].(type) {
				case *ssa.Alloc:
					byRef = true
				case *ssa.FreeVar:
					byRef = capturedByRef(b)
				}
				if byRef {
					et := fv.Type().Underlying().(*types.Pointer).Elem()
					env.vars[fv.Name()] = Val{T: tr.load(site.Before, bv.T, et, "true", true), Ty: et}
				} else {
					env.vars[fv.Name()] = bv
				}
			}
		}
	}
	for i := range site.Args {
		env.vars[fmt.Sprintf("arg%d", i)] = site.Args[i]
	}
	if site.Recv != nil {
		env.vars["recv"] = *site.Recv
	}
	return env
}

// modifiesCellSorts derives, from types alone, the cell sorts named by a modifies clause of the
// shape param.f.g (used when a loop containing the call is havocked before the call is translated).
func (tr *FnTrans) modifiesCellSorts(spec *Contract, cc *ssa.CallCommon, out map[string]bool) bool {
	sig := cc.Signature()
	params, _ := sigNames(sig, cc.IsInvoke())
	ptypes := []types.Type{}
	if sig.Recv() != nil && !cc.IsInvoke() {
		ptypes = append(ptypes, sig.Recv().Type())
	}
	for i := 0; i < sig.Params().Len(); i++ {
		ptypes = append(ptypes, sig.Params().At(i).Type())
	}
	var typeOf func(x *Expr) types.Type
	typeOf = func(x *Expr) types.Type {
		switch x.Op {
		case "id":
			for i, n := range params {
				if n == x.S && i < len(ptypes) {
					return ptypes[i]
				}
			}
		case "sel":
			bt := typeOf(x.A[0])
			if bt == nil {
				return nil
			}
			if pt, ok := bt.Underlying().(*types.Pointer); ok {
				bt = pt.Elem()
			}
			_, ft := findField(bt, x.S)
			return ft
		case "un":
			if x.S == "*" {
				if bt := typeOf(x.A[0]); bt != nil {
					if pt, ok := bt.Underlying().(*types.Pointer); ok {
						return pt.Elem()
					}
				}
			}
		}
		return nil
	}
	for _, m := range spec.Modifies {
		if m.E.Op == "call" && m.E.S == "pointee" && len(m.E.A) == 1 && m.E.A[0].Op == "id" {
			pv, pt := pointeeArg(cc, m.E.A[0].S)
			if pt == nil {
				return false
			}
			if al, ok := pv.(*ssa.Alloc); ok && tr.curLoopBlocks != nil && tr.curLoopBlocks[al.Block()] {
				continue // a variable allocated inside the loop: nothing to havoc at the loop head
			}
			all := false
			tr.reachableCells(pt, out, map[types.Type]bool{}, &all, false)
			if all {
				return false
			}
			continue
		}
		t := typeOf(m.E)
		if t == nil {
			return false
		}
		tr.cellSorts(t, out)
	}
	return true
}

// applyModifies havocs exactly the cells named by the callee's modifies clause.
func (tr *FnTrans) applyModifies(st *BState, site *Site, spec *Contract, cc *ssa.CallCommon) {
	env := tr.calleeEnv(site, spec, cc)
	env.heap = site.Before
	for _, m := range spec.Modifies {
		if m.E.Op == "call" && m.E.S == "pointee" && len(m.E.A) == 1 && m.E.A[0].Op == "id" {
			tr.havocPointee(st, site, cc, m.E.A[0].S)
			continue
		}
		addr, t, ok := env.addrOf(m.E)
		if !ok {
			panic(unsupported(fmt.Sprintf("modifies clause %q of %s is not an addressable location", m.Src, site.Callee)))
		}
		v := tr.introduce("mod_"+valueName(site.Instr), t, st.reach, "modified by "+site.Callee)
		tr.store(st.heap, addr, t, v.T)
	}
}

type pendingDec struct {
	ptr  Val
	elem types.Type
	site *Site
}

// applyDecoded assumes the decoder postconditions declared for the destination type of a decoder call.
func (tr *FnTrans) applyDecoded(st *BState, site *Site) {
	pend := tr.pendingDecoded
	tr.pendingDecoded = nil
	for _, pd := range pend {
		if pd.site != site || len(site.Results) == 0 {
			continue
		}
		errV := site.Results[len(site.Results)-1]
		if !isIfaceT(errV.Ty) {
			continue
		}
		named, ok := pd.elem.(*types.Named)
		if !ok {
			continue
		}
		for _, d := range tr.eng.decoded {
			if !siteMatches(site.Callee, d.Callee) {
				continue
			}
			tn := d.Type
			if i := strings.LastIndex(tn, "."); i >= 0 {
				tn = tn[i+1:]
			}
			if named.Obj().Name() != tn {
				continue
			}
			env := &Env{tr: tr, heap: site.After, oldHeap: site.Before, vars: map[string]Val{"v": pd.ptr}, quiet: true, pkg: named.Obj().Pkg()}
			tr.assume(and(st.reach, fmt.Sprintf("(= (itag %s) 0)", errV.T)), env.evalHyp(d.C.E), "decoded "+d.Type+": "+d.C.Src)
			tr.usedSpecs["assumed decoder postcondition: "+d.Type+" by "+d.Callee+": "+d.C.Src] = true
		}
	}
}

// pointeeArg finds the static pointer type boxed into an interface argument (or the pointer
// argument itself) named by a `modifies pointee(name)` clause.
func pointeeArg(cc *ssa.CallCommon, name string) (ssa.Value, types.Type) {
	params, _ := sigNames(cc.Signature(), cc.IsInvoke())
	for i, n := range params {
		if n != name || i >= len(cc.Args) {
			continue
		}
		a := cc.Args[i]
		if mi, ok := a.(*ssa.MakeInterface); ok {
			a = mi.X
		}
		return a, a.Type()
	}
	return nil, nil
}

// havocPointee havocs (by cell sort) everything reachable from the pointer passed as the named argument.
func (tr *FnTrans) havocPointee(st *BState, site *Site, cc *ssa.CallCommon, name string) {
	pv, t := pointeeArg(cc, name)
	if t == nil {
		st.heap = tr.newRoot()
		return
	}
	// the destination is a local variable or a field of one: only its own cells change (objects
	// the callee allocates and links from it are new memory)
	var al *ssa.Alloc
	for x := pv; x != nil; {
		switch y := x.(type) {
		case *ssa.Alloc:
			al = y
			x = nil
		case *ssa.FieldAddr:
			x = y.X
		default:
			x = nil
		}
	}
	if al != nil {
		if av, ok := tr.vals[pv]; ok {
			et := pv.Type().Underlying().(*types.Pointer).Elem()
			v := tr.introduce("dec_"+al.Comment, et, st.reach, "written by "+site.Callee)
			tr.store(st.heap, av.T, et, v.T)
			tr.pendingDecoded = append(tr.pendingDecoded, pendingDec{av, et, site})
			return
		}
	}
	mod := map[string]bool{}
	all := false
	tr.reachableCells(t, mod, map[types.Type]bool{}, &all, false)
	if all {
		st.heap = tr.newRoot()
		return
	}
	var ks []string
	for k := range mod {
		ks = append(ks, k)
	}
	sort.Strings(ks)
	for _, k := range ks {
		st.heap.set(k, tr.freshHeap("Hdec_"+heapKey(k), st.heap.arraySort(k)))
	}
}

// applySpec checks the callee's requires and assumes its ensures at a call site.
func (tr *FnTrans) applySpec(st *BState, site *Site, spec *Contract, cc *ssa.CallCommon) {
	sig := cc.Signature()
	env := tr.calleeEnv(site, spec, cc)
	// requires, evaluated in the pre-state
	pre := *env
	pre.heap = site.Before
	for _, r := range spec.Requires {
		tr.oblige("call-pre", fmt.Sprintf("precondition of %s: %s", site.Callee, r.Src), st.reach, pre.evalGoal(r.E), site.Pos)
	}
	env.results = site.Results
	env.resNames = site.ResNames
	env.atReturn = true
	_ = sig
	internal := map[string]bool{}
	for _, sd := range spec.Sites {
		internal[sd.Alias] = true
	}
	for _, l := range spec.Lets {
		if mentions(l.C.E, internal) {
			internal[l.Name] = true
		}
	}
	for _, e := range spec.Ensures {
		if mentions(e.E, internal) {
			continue // speaks about the callee's own call sites: not visible to callers
		}
		tr.assumeHyp(env, e.E, st.reach, "ensures of "+site.Callee+": "+e.Src)
	}
	if spec.Assumed || spec.NoBody {
		tr.usedSpecs["assumed contract: "+site.Callee] = true
	}
}

// assumeStable re-establishes, after a havoc, the cells of the structs declared stable.
func (tr *FnTrans) assumeStable(st *BState, before, after *Heap) {
	if tr.c == nil {
		return
	}
	for _, sf := range tr.stableFlds {
		tr.stableCells(st, sf.addr, sf.ty, before, after)
	}
	for _, sv := range tr.stableVals {
		pt, ok := sv.Ty.Underlying().(*types.Pointer)
		if !ok {
			continue
		}
		tr.stableCells(st, sv.T, pt.Elem(), before, after)
	}
}

// assumeGlobalInvs assumes the package's global invariants (facts about package-level variables that
// package initialisation establishes and nothing changes afterwards) in the given heap.
func (tr *FnTrans) assumeGlobalInvs(guard string, h *Heap) {
	if tr.fn == nil || tr.fn.Pkg == nil {
		return
	}
	if tr.c != nil && tr.c.IsInit {
		return // the initializer is what establishes them
	}
	pos := tr.fn.Prog.Fset.Position(tr.fn.Pos())
	invs := tr.eng.globalInvs[filepath.Dir(pos.Filename)]
	for _, inv := range invs {
		env := tr.envAt(nil, 0, h, h)
		tr.assume(guard, env.evalHyp(inv.E), "global invariant: "+inv.Src)
		tr.usedGlobalInvs[inv.Src] = inv
	}
}

// preserveLocals re-establishes, after a havoc caused by a callee, the cells of local variables
// whose address never escapes: no callee can write them.
// privateMakeMaps: the make(map) values bound to variables the contract declares private.
func (tr *FnTrans) privateMakeMaps() []*ssa.MakeMap {
	if tr.c == nil || len(tr.c.Private) == 0 {
		return nil
	}
	if tr.privMaps != nil {
		return tr.privMaps
	}
	tr.privMaps = []*ssa.MakeMap{}
	seen := map[*ssa.MakeMap]bool{}
	for _, b := range tr.fn.Blocks {
		for _, in := range b.Instrs {
			if d, ok := in.(*ssa.DebugRef); ok && !d.IsAddr {
				if mk, ok := d.X.(*ssa.MakeMap); ok && d.Object() != nil && contains(tr.c.Private, d.Object().Name()) && !seen[mk] {
					seen[mk] = true
					tr.privMaps = append(tr.privMaps, mk)
				}
			}
		}
	}
	return tr.privMaps
}

// preservePrivate: the object a `private` local pointer variable points to cannot be reached by any
// callee (checked syntactically: frame:private), so its fields keep their values through a call.
func (tr *FnTrans) preservePrivate(st *BState, before, after *Heap) {
	if tr.c == nil || len(tr.c.Private) == 0 {
		return
	}
	// maps held in a register (never address-taken) and named private
	for _, mk := range tr.privateMakeMaps() {
		mv, ok := tr.vals[mk]
		if !ok {
			continue
		}
		mt := mk.Type().Underlying().(*types.Map)
		ks, es := tr.smt.sortOf(mt.Key()), tr.smt.sortOf(mt.Elem())
		for _, srt := range []string{domSort(ks), fmt.Sprintf("(Array %s %s)", ks, es)} {
			b, a := before.lookup(srt), after.lookup(srt)
			if a != b {
				tr.assume(st.reach, fmt.Sprintf("(= (select %s %s) (select %s %s))", a, mv.T, b, mv.T), "private map")
			}
		}
	}
	for _, al := range tr.allocs {
		if !contains(tr.c.Private, al.Comment) || tr.escapeOf(al) {
			continue
		}
		av, ok := tr.vals[al]
		if !ok {
			continue
		}
		if mt, isMap := al.Type().Underlying().(*types.Pointer).Elem().Underlying().(*types.Map); isMap {
			// a map only this function can reach keeps its keys and values through a call
			m := tr.load(before, av.T, al.Type().Underlying().(*types.Pointer).Elem(), st.reach, true)
			ks, es := tr.smt.sortOf(mt.Key()), tr.smt.sortOf(mt.Elem())
			for _, srt := range []string{domSort(ks), fmt.Sprintf("(Array %s %s)", ks, es)} {
				b, a := before.lookup(srt), after.lookup(srt)
				if a != b {
					tr.assume(and(st.reach, fmt.Sprintf("(not (= %s nil))", m)), fmt.Sprintf("(= (select %s %s) (select %s %s))", a, m, b, m), "private map of "+al.Comment)
				}
			}
			continue
		}
		pt, ok := al.Type().Underlying().(*types.Pointer).Elem().Underlying().(*types.Pointer)
		if !ok {
			continue
		}
		stt, ok := pt.Elem().Underlying().(*types.Struct)
		if !ok {
			continue
		}
		p := tr.load(before, av.T, al.Type().Underlying().(*types.Pointer).Elem(), st.reach, true)
		for i := 0; i < stt.NumFields(); i++ {
			ft := stt.Field(i).Type()
			srt := tr.smt.sortOf(ft)
			if _, isStruct := ft.Underlying().(*types.Struct); isStruct {
				continue
			}
			if _, isArr := ft.Underlying().(*types.Array); isArr {
				continue
			}
			b, a := before.lookup(srt), after.lookup(srt)
			if a == b {
				continue
			}
			addr := tr.fldAddr(p, stt, i)
			tr.assume(and(st.reach, fmt.Sprintf("(not (= %s nil))", p)), fmt.Sprintf("(= (select %s %s) (select %s %s))", a, addr, b, addr), "private object of "+al.Comment)
		}
	}
}

// preserveCaptured: variables of the enclosing function that nobody assigns once the function
// literal exists keep their value through any havoc.
func (tr *FnTrans) preserveCaptured(st *BState, before, after *Heap) {
	// variables of the enclosing function that nobody assigns once the function literal exists
	for _, fv := range tr.fn.FreeVars {
		if !capturedByRef(fv) || !immutableCapture(fv) {
			continue
		}
		v, ok := tr.vals[fv]
		if !ok {
			continue
		}
		tr.usedSpecs["captured variable "+fv.Name()+" is assigned only before the function literal is created (syntactic check)"] = true
		tr.stableCells(st, v.T, fv.Type().Underlying().(*types.Pointer).Elem(), before, after)
	}
}

func (tr *FnTrans) preserveLocals(st *BState, before, after *Heap) {
	tr.preserveCaptured(st, before, after)
	tr.preservePrivate(st, before, after)
	for _, al := range tr.allocs {
		if tr.escapeOf(al) {
			// a struct variable of which only some fields have their address handed out: the
			// other fields cannot be reached through those pointers
			if stt, isStruct := al.Type().Underlying().(*types.Pointer).Elem().Underlying().(*types.Struct); isStruct {
				if esc, ok := escapingFields(al); ok {
					if v, ok := tr.vals[al]; ok {
						for i := 0; i < stt.NumFields(); i++ {
							if !esc[i] {
								tr.stableCells(st, tr.fldAddr(v.T, stt, i), stt.Field(i).Type(), before, after)
							}
						}
					}
				}
			}
			continue
		}
		v, ok := tr.vals[al]
		if !ok {
			continue
		}
		et := al.Type().Underlying().(*types.Pointer).Elem()
		if at, isArr := et.Underlying().(*types.Array); isArr && at.Len() > maxArrayUnfold {
			continue
		}
		tr.stableCells(st, v.T, et, before, after)
	}
}

func (tr *FnTrans) escapeOf(al *ssa.Alloc) bool {
	if e, ok := tr.escCache[al]; ok {
		return e
	}
	e := escapes(al)
	tr.escCache[al] = e
	return e
}

func (tr *FnTrans) stableCells(st *BState, addr string, t types.Type, before, after *Heap) {
	switch u := t.Underlying().(type) {
	case *types.Struct:
		for i := 0; i < u.NumFields(); i++ {
			tr.stableCells(st, tr.fldAddr(addr, u, i), u.Field(i).Type(), before, after)
		}
	case *types.Array:
		if u.Len() <= maxArrayUnfold {
			for i := int64(0); i < u.Len(); i++ {
				tr.stableCells(st, tr.elemAddr(addr, tr.lit64(i)), u.Elem(), before, after)
			}
		}
	default:
		srt := tr.smt.sortOf(t)
		b, a := before.lookup(srt), after.lookup(srt)
		if a != b {
			tr.assume(st.reach, fmt.Sprintf("(= (select %s %s) (select %s %s))", a, addr, b, addr), "stable struct")
		}
	}
}

// mentions reports whether an expression uses one of the given identifiers.
func mentions(x *Expr, ids map[string]bool) bool {
	if x == nil {
		return false
	}
	if x.Op == "id" && ids[x.S] {
		return true
	}
	for _, a := range x.A {
		if mentions(a, ids) {
			return true
		}
	}
	return false
}

// ---------------------------------------------------------------- builtins

func (tr *FnTrans) builtin(st *BState, ci ssa.CallInstruction, b *ssa.Builtin) Val {
	cc := ci.Common()
	var args []Val
	for _, a := range cc.Args {
		args = append(args, tr.val(a))
	}
	intT := types.Typ[types.Int]
	switch b.Name() {
	case "len":
		switch args[0].Ty.Underlying().(type) {
		case *types.Slice:
			return Val{T: fmt.Sprintf("(slen %s)", args[0].T), Ty: intT}
		case *types.Basic:
			return Val{T: fmt.Sprintf("(strlen %s)", args[0].T), Ty: intT}
		case *types.Array:
			return Val{T: tr.lit64(args[0].Ty.Underlying().(*types.Array).Len()), Ty: intT}
		case *types.Pointer:
			return Val{T: tr.lit64(args[0].Ty.Underlying().(*types.Pointer).Elem().Underlying().(*types.Array).Len()), Ty: intT}
		case *types.Map:
			n := tr.smt.define("maplen", tr.smt.intSortW(64), tr.mapLen(st.heap, args[0]))
			tr.assume(st.reach, tr.ivLe(tr.lit64(0), n), "len(map) >= 0")
			return Val{T: n, Ty: intT}
		default:
			v := tr.introduce("len", intT, st.reach, "len")
			tr.assume(st.reach, tr.ivLe(tr.lit64(0), v.T), "len >= 0")
			return v
		}
	case "cap":
		if _, ok := args[0].Ty.Underlying().(*types.Slice); ok {
			return Val{T: fmt.Sprintf("(scap %s)", args[0].T), Ty: intT}
		}
		v := tr.introduce("cap", intT, st.reach, "cap")
		tr.assume(st.reach, tr.ivLe(tr.lit64(0), v.T), "cap >= 0")
		return v
	case "append":
		return tr.appendOp(st, ci, args)
	case "copy":
		dst, src := args[0], args[1]
		var srcLen string
		if isStringType(src.Ty) {
			srcLen = fmt.Sprintf("(strlen %s)", src.T)
		} else {
			srcLen = fmt.Sprintf("(slen %s)", src.T)
		}
		dl := fmt.Sprintf("(slen %s)", dst.T)
		n := tr.smt.define("copyn", tr.smt.intSortW(64), fmt.Sprintf("(ite %s %s %s)", tr.ivLe(dl, srcLen), dl, srcLen))
		et := dst.Ty.Underlying().(*types.Slice).Elem()
		tr.copyCells(st, et, dst, src, n)
		return Val{T: n, Ty: intT}
	case "print", "println", "close":
		// close(ch): no memory of the model changes (receivers see ok == false, which is unconstrained anyway)
		return Val{}
	case "delete":
		m, k := args[0], args[1]
		mt := m.Ty.Underlying().(*types.Map)
		ks := tr.smt.sortOf(mt.Key())
		domS := domSort(ks)
		cd := st.heap.lookup(domS)
		tr.keyCand(k)
		// delete on a nil map is a no-op
		st.heap.set(domS, tr.smt.define("Hdom", st.heap.arraySort(domS), fmt.Sprintf("(ite (= %s nil) %s (store %s %s (store (select %s %s) %s false)))", m.T, cd, cd, m.T, cd, m.T, k.T)))
		return Val{}
	case "clear":
		if mt, ok := args[0].Ty.Underlying().(*types.Map); ok {
			ks := tr.smt.sortOf(mt.Key())
			domS := domSort(ks)
			cd := st.heap.lookup(domS)
			st.heap.set(domS, tr.smt.define("Hdom", st.heap.arraySort(domS), fmt.Sprintf("(ite (= %s nil) %s (store %s %s ((as const %s) false)))", args[0].T, cd, cd, args[0].T, domS)))
			return Val{}
		}
		// clear of a slice: the element cells are overwritten; not modelled precisely
		tr.abstracted["clear(slice): all memory havoced"]++
		st.heap = tr.newRoot()
		return Val{}
	case "panic":
		if !(tr.c != nil && tr.c.MayPanic) {
			tr.oblige("safety:panic", "explicit panic is unreachable", st.reach, "false", ci.Pos())
		}
		tr.assume(st.reach, "false", "after panic")
		return Val{}
	case "recover":
		return Val{T: "(mkiface 0 0)", Ty: types.NewInterfaceType(nil, nil)}
	case "min", "max":
		acc := args[0]
		for _, a := range args[1:] {
			var c string
			if b.Name() == "min" {
				c = tr.intCmp(token.LSS, a, acc)
			} else {
				c = tr.intCmp(token.GTR, a, acc)
			}
			acc = Val{T: fmt.Sprintf("(ite %s %s %s)", c, a.T, acc.T), Ty: acc.Ty}
		}
		return acc
	}
	panic(unsupported("builtin " + b.Name()))
}

// cellPath describes one scalar cell inside an element of a slice: the field ids from the element
// address outwards, and the cell's sort.
type cellPath struct {
	fields []int
	sort   string
}

// elemCellPaths lists the scalar cells of an element type; ok=false when the element contains
// arrays (not supported by the content axioms).
func (tr *FnTrans) elemCellPaths(t types.Type, prefix []int, out *[]cellPath) bool {
	switch u := t.Underlying().(type) {
	case *types.Struct:
		for i := 0; i < u.NumFields(); i++ {
			if !tr.elemCellPaths(u.Field(i).Type(), append(append([]int{}, prefix...), tr.smt.fieldID(u, i)), out) {
				return false
			}
		}
		return true
	case *types.Array:
		return false
	}
	*out = append(*out, cellPath{prefix, tr.smt.sortOf(t)})
	return true
}

func pathAddr(elemAddr string, fields []int) string {
	a := elemAddr
	for _, f := range fields {
		a = fmt.Sprintf("(fld %s %d)", a, f)
	}
	return a
}

// pathMatch inverts pathAddr: condition under which r has the shape of this path, and the term
// for the element address inside r.
func pathMatch(r string, fields []int) (string, string) {
	var conds []string
	cur := r
	for i := len(fields) - 1; i >= 0; i-- {
		conds = append(conds, fmt.Sprintf("((_ is fld) %s)", cur), fmt.Sprintf("(= (fidx %s) %d)", cur, fields[i]))
		cur = fmt.Sprintf("(fbase %s)", cur)
	}
	conds = append(conds, fmt.Sprintf("((_ is elem) %s)", cur))
	return and(conds...), cur
}

// moveCells states that n elements starting at (dBase,dOff) now hold what the n elements starting at
// (sBase,sOff) held before, for every scalar cell of the element type, and that nothing else changed
// unless it lies in an additional havocked region (extraBase: all elements of that base may change).
func (tr *FnTrans) moveCells(st *BState, et types.Type, moves []cellMove, tag string) bool {
	var paths []cellPath
	if !tr.elemCellPaths(et, nil, &paths) {
		return false
	}
	bySort := map[string][]cellPath{}
	var sorts []string
	for _, p := range paths {
		if _, ok := bySort[p.sort]; !ok {
			sorts = append(sorts, p.sort)
		}
		bySort[p.sort] = append(bySort[p.sort], p)
	}
	sort.Strings(sorts)
	is := tr.smt.intSortW(64)
	for _, cs := range sorts {
		old := st.heap.lookup(cs)
		nw := tr.freshHeap("H"+tag+"_"+heapKey(cs), st.heap.arraySort(cs))
		st.heap.set(cs, nw)
		var changed []string
		for _, p := range bySort[cs] {
			for mi, mv := range moves {
				q := fmt.Sprintf("mi%d!", mi)
				inRange := and(tr.ivLe(tr.lit64(0), q), tr.ivLt(q, mv.n))
				dst := pathAddr(tr.elemAddr(mv.dBase, tr.ivAdd(mv.dOff, q)), p.fields)
				src := pathAddr(tr.elemAddr(mv.sBase, tr.ivAdd(mv.sOff, q)), p.fields)
				_, _, _ = inRange, dst, src // the quantified original is not emitted: instances are generated below
				// explicit instances for the index terms known so far, and again whenever new ones appear
				done := map[string]bool{}
				guard := and(st.reach, mv.guard)
				mv, p := mv, p
				inst := func(cs []Val) {
					for _, c := range append([]string{tr.lit64(0)}, tr.candidatesOf(cs, is)...) {
						// the element index is either c itself or c taken relative to the destination offset
						idxs := []string{c, tr.ivSub(c, tr.ivSub(mv.dOff, mv.sOff))}
						if mv.dRel != "" {
							idxs = append(idxs, tr.ivSub(c, tr.ivSub(mv.dOff, mv.dRel)))
						}
						for _, idx := range idxs {
							if done[idx] {
								continue
							}
							done[idx] = true
							inR := and(tr.ivLe(tr.lit64(0), idx), tr.ivLt(idx, mv.n))
							d := pathAddr(tr.elemAddr(mv.dBase, tr.ivAdd(mv.dOff, idx)), p.fields)
							sa := pathAddr(tr.elemAddr(mv.sBase, tr.ivAdd(mv.sOff, idx)), p.fields)
							tr.assume(guard, fmt.Sprintf("(=> %s (= (select %s %s) (select %s %s)))", inR, nw, d, old, sa), tag+": contents instance")
						}
					}
				}
				inst(tr.globalCands())
				tr.reinst = append(tr.reinst, inst)
				m, el := pathMatch("r%%", p.fields)
				changed = append(changed, and(mv.guard, m, fmt.Sprintf("(= (ebase %s) %s)", el, mv.dBase), tr.ivLe(mv.dOff, fmt.Sprintf("(eidx %s)", el)), tr.ivLt(fmt.Sprintf("(eidx %s)", el), tr.ivAdd(mv.dOff, mv.n))))
			}
		}
		chg := or(changed...)
		ff := &frameFact{guard: st.reach, old: old, nw: nw, changedOf: func(r string) string {
			return strings.ReplaceAll(chg, "r%%", r)
		}}
		tr.heapAnc[nw] = append([]*frameFact{ff}, tr.heapAnc[old]...)
	}
	return true
}

type cellMove struct {
	guard                       string
	dBase, dOff, sBase, sOff, n string
	dRel                        string // offset of the destination slice value: index j of that slice is move index j-(dOff-dRel)
}

type frameFact struct {
	guard, old, nw string
	changedOf      func(r string) string
}

// copyCells models copy(dst, src) of n elements.
func (tr *FnTrans) copyCells(st *BState, et types.Type, dst, src Val, n string) {
	havocAll := func(why string) {
		cells := map[string]bool{}
		tr.cellSorts(et, cells)
		for cs := range cells {
			st.heap.set(cs, tr.freshHeap("Hcopy_"+heapKey(cs), st.heap.arraySort(cs)))
		}
		tr.note("copy: element cells havocked (%s)", why)
	}
	if isStringType(src.Ty) {
		havocAll("string source")
		return
	}
	mv := cellMove{guard: "true", dBase: fmt.Sprintf("(sbase %s)", dst.T), dOff: fmt.Sprintf("(soff %s)", dst.T), sBase: fmt.Sprintf("(sbase %s)", src.T), sOff: fmt.Sprintf("(soff %s)", src.T), n: n}
	if !tr.moveCells(st, et, []cellMove{mv}, "copy") {
		havocAll("array-valued elements")
	}
}

type copyFact struct {
	guard, old, nw, dst, src, n, sort string
}

func (tr *FnTrans) appendOp(st *BState, ci ssa.CallInstruction, args []Val) Val {
	s, extra := args[0], args[1]
	sl := s.Ty.Underlying().(*types.Slice)
	var addLen string
	if isStringType(extra.Ty) {
		addLen = fmt.Sprintf("(strlen %s)", extra.T)
	} else {
		addLen = fmt.Sprintf("(slen %s)", extra.T)
	}
	oldLen := fmt.Sprintf("(slen %s)", s.T)
	newLen := tr.smt.define("applen", tr.smt.intSortW(64), tr.ivAdd(oldLen, addLen))
	fits := tr.smt.define("appfits", "Bool", tr.ivLe(newLen, fmt.Sprintf("(scap %s)", s.T)))
	nbase := tr.newLoc(ci.Block())
	ncap := tr.smt.fresh("appcap", tr.smt.intSortW(64))
	res := tr.smt.define(valueName(ci), "Slice", fmt.Sprintf("(ite %s (mkslice (sbase %s) (soff %s) %s (scap %s)) (mkslice %s %s %s %s))",
		fits, s.T, s.T, newLen, s.T, nbase, tr.lit64(0), newLen, ncap))
	tr.assume(st.reach, and(tr.ivLe(newLen, ncap), tr.ivLe(ncap, tr.lit64(1<<48))), "append: capacity")
	tr.assume(st.reach, tr.ivLe(newLen, tr.lit64(1<<48)), "append: runtime allocation limit")
	rb, ro := fmt.Sprintf("(sbase %s)", res), fmt.Sprintf("(soff %s)", res)
	havocAll := func(why string) {
		cells := map[string]bool{}
		tr.cellSorts(sl.Elem(), cells)
		for cs := range cells {
			st.heap.set(cs, tr.freshHeap("Happ_"+heapKey(cs), st.heap.arraySort(cs)))
		}
		tr.note("append: element cells havocked (%s)", why)
	}
	if isStringType(extra.Ty) {
		havocAll("string operand")
		return Val{T: res, Ty: s.Ty}
	}
	var paths []cellPath
	okPaths := tr.elemCellPaths(sl.Elem(), nil, &paths)
	staticN := staticSliceLen(ci.Common().Args[1])
	if okPaths && staticN >= 0 && staticN <= 8 {
		// a statically known number of appended elements: explicit stores, no quantified frame.
		// On reallocation the new array is fresh memory; its first len(s) cells are *defined* to
		// hold the old elements (instantiated on demand), which is sound because nothing has
		// read them before.
		before := st.heap
		st.heap = st.heap.child()
		eb, eo := fmt.Sprintf("(sbase %s)", extra.T), fmt.Sprintf("(soff %s)", extra.T)
		for j := 0; j < staticN; j++ {
			jt := tr.lit64(int64(j))
			for _, p := range paths {
				src := fmt.Sprintf("(select %s %s)", before.lookup(p.sort), pathAddr(tr.elemAddr(eb, tr.ivAdd(eo, jt)), p.fields))
				dst := pathAddr(tr.elemAddr(rb, tr.ivAdd(ro, tr.ivAdd(oldLen, jt))), p.fields)
				cur := st.heap.lookup(p.sort)
				st.heap.set(p.sort, tr.smt.define("Happ_"+heapKey(p.sort), st.heap.arraySort(p.sort), fmt.Sprintf("(store %s %s %s)", cur, dst, src)))
			}
		}
		is := tr.smt.intSortW(64)
		done := map[string]bool{}
		guard := and(st.reach, tr.boolNot(fits))
		sb, so := fmt.Sprintf("(sbase %s)", s.T), fmt.Sprintf("(soff %s)", s.T)
		inst := func(cs []Val) {
			for _, c := range tr.candidatesOf(cs, is) {
				if done[c] {
					continue
				}
				done[c] = true
				inR := and(tr.ivLe(tr.lit64(0), c), tr.ivLt(c, oldLen))
				for _, p := range paths {
					h := before.lookup(p.sort)
					tr.assume(guard, fmt.Sprintf("(=> %s (= (select %s %s) (select %s %s)))", inR, h, pathAddr(tr.elemAddr(nbase, c), p.fields), h, pathAddr(tr.elemAddr(sb, tr.ivAdd(so, c)), p.fields)), "append: reallocated prefix")
				}
			}
		}
		inst(tr.globalCands())
		tr.reinst = append(tr.reinst, inst)
		return Val{T: res, Ty: s.Ty}
	}
	moves := []cellMove{
		// appended elements
		{guard: "true", dBase: rb, dOff: tr.ivAdd(ro, oldLen), sBase: fmt.Sprintf("(sbase %s)", extra.T), sOff: fmt.Sprintf("(soff %s)", extra.T), n: addLen, dRel: ro},
		// on reallocation the old prefix is copied into the new array
		{guard: tr.boolNot(fits), dBase: rb, dOff: ro, sBase: fmt.Sprintf("(sbase %s)", s.T), sOff: fmt.Sprintf("(soff %s)", s.T), n: oldLen},
	}
	if !tr.moveCells(st, sl.Elem(), moves, "app") {
		havocAll("array-valued elements")
	}
	return Val{T: res, Ty: s.Ty}
}

// newRoot creates a heap state about which nothing is known, remembering the allocation counter.
func (tr *FnTrans) newRoot() *Heap {
	h := tr.smt.newRootHeap()
	h.ac = tr.curAC()
	return h
}

// freshHeap declares an unconstrained heap array; every pointer it holds refers to an object that
// exists now (its id is below the current allocation counter).
func (tr *FnTrans) freshHeap(prefix, sortName string) string {
	n := tr.smt.fresh(prefix, sortName)
	tr.baseAC[n] = tr.curAC()
	tr.heapBases[n] = []string{n}
	return n
}

// newLoc returns the address of a new object. Outside loops every allocation site gets a distinct
// literal id; inside a loop the id is symbolic (distinct from all literal ids and from the other
// objects of the same iteration), because objects of earlier iterations may still be referenced.
func (tr *FnTrans) newLoc(b *ssa.BasicBlock) string {
	st := tr.curState
	if st == nil {
		panic(unsupported("allocation outside a block"))
	}
	id := st.ac
	st.ac = tr.smt.define("ac", "Int", fmt.Sprintf("(+ %s 1)", id))
	return fmt.Sprintf("(loc %s)", id)
}

// staticSliceLen returns the statically known length of a slice value built as arr[:] from a
// fixed-size array allocation (the shape of variadic arguments), or -1.
func staticSliceLen(v ssa.Value) int {
	sl, ok := v.(*ssa.Slice)
	if !ok || sl.Low != nil || sl.High != nil || sl.Max != nil {
		return -1
	}
	pt, ok := sl.X.Type().Underlying().(*types.Pointer)
	if !ok {
		return -1
	}
	at, ok := pt.Elem().Underlying().(*types.Array)
	if !ok {
		return -1
	}
	return int(at.Len())
}

func bigInt(v int64) *big.Int { return big.NewInt(v) }

func isConst(v ssa.Value) bool {
	_, ok := v.(*ssa.Const)
	return ok
}

package main

import (
	"fmt"
	"go/types"
	"path/filepath"
	"reflect"
	"regexp"
	"strconv"
	"strings"
)

// layoutObligations compares every `//@ layout` table with the struct type it names: field
// names and order, the Go kind of every field, and the widths and bounds its `tls` tag gives
// (read the way tls.fieldTagToFieldInfo reads them, whose contract is proved under C09).
// One syntactic obligation per field, plus one for the field count.
func (e *Engine) layoutObligations(props map[string]bool) []*Obligation {
	var out []*Obligation
	for _, cf := range e.files {
		for _, ly := range cf.Layouts {
			has := props == nil
			for _, p := range ly.Props {
				if props[p] {
					has = true
				}
			}
			if !has {
				continue
			}
			out = append(out, e.checkLayout(ly)...)
		}
	}
	return out
}

func (e *Engine) checkLayout(ly *Layout) []*Obligation {
	var pkg *types.Package
	for _, p := range e.pkgs {
		if len(p.GoFiles) > 0 && filepath.Dir(p.GoFiles[0]) == ly.Dir {
			pkg = p.Types
		}
	}
	short := ""
	if pkg != nil {
		short = strings.TrimPrefix(pkg.Path(), "github.com/google/certificate-transparency-go/")
		if short == "github.com/google/certificate-transparency-go" {
			short = "ct"
		}
	}
	mk := func(field, clause string, probs []string) *Obligation {
		o := &Obligation{Name: fmt.Sprintf("%s.%s/layout:%s#1", short, ly.Type, field), Kind: "layout", Fn: short + "." + ly.Type, Props: ly.Props,
			Expect: "unsat", Clause: clause, Syntactic: true, Solver: "syntactic", Pos: fmt.Sprintf("%s:%d", ly.File, ly.Line)}
		if len(probs) == 0 {
			o.Status, o.Answer = "discharged", "unsat"
		} else {
			o.Status, o.Answer = "failed", "syntactic"
			o.Model = strings.Join(probs, "; ")
		}
		return o
	}
	if pkg == nil {
		return []*Obligation{mk("type", "the type exists", []string{"no package for " + ly.Dir})}
	}
	obj := pkg.Scope().Lookup(ly.Type)
	if obj == nil {
		return []*Obligation{mk("type", "the type exists", []string{"no type " + ly.Type + " in " + pkg.Path()})}
	}
	st, ok := obj.Type().Underlying().(*types.Struct)
	if !ok {
		return []*Obligation{mk("type", "the type is a struct", []string{ly.Type + " is not a struct"})}
	}
	var out []*Obligation
	var cnt []string
	if st.NumFields() != len(ly.Fields) {
		cnt = append(cnt, fmt.Sprintf("%s has %d fields, the layout table has %d", ly.Type, st.NumFields(), len(ly.Fields)))
	}
	out = append(out, mk("fields", fmt.Sprintf("%s has exactly the %d fields of the table, in that order", ly.Type, len(ly.Fields)), cnt))
	for i, lf := range ly.Fields {
		clause := fmt.Sprintf("field %d of %s is %s %s", i, ly.Type, lf.Name, lf.Wire)
		if i >= st.NumFields() {
			out = append(out, mk(lf.Name, clause, []string{"no such field"}))
			continue
		}
		f := st.Field(i)
		var probs []string
		if f.Name() != lf.Name {
			probs = append(probs, fmt.Sprintf("field %d is named %s", i, f.Name()))
		}
		probs = append(probs, wireProblems(f.Type(), reflect.StructTag(st.Tag(i)).Get("tls"), lf.Wire)...)
		out = append(out, mk(lf.Name, clause, probs))
	}
	return out
}

type tagInfo struct {
	count                     int // -1 when the tag gives none
	minlen, maxlen            uint64
	hasMin, hasMax, hasMaxval bool
	selector                  string
	val                       uint64
	hasVal                    bool
}

func tlsByteCount(x uint64) int {
	n := 1
	for x >= 0x100 {
		x >>= 8
		n++
	}
	return n
}

// parseTLSTag reads a tag the way tls.fieldTagToFieldInfo does (later clauses override earlier ones).
func parseTLSTag(tag string) tagInfo {
	ti := tagInfo{count: -1}
	for _, part := range strings.Split(tag, ",") {
		switch {
		case strings.HasPrefix(part, "maxval:"):
			if v, err := strconv.ParseUint(part[7:], 10, 64); err == nil {
				ti.count, ti.hasMaxval = tlsByteCount(v), true
			}
		case strings.HasPrefix(part, "size:"):
			if v, err := strconv.ParseUint(part[5:], 10, 32); err == nil {
				ti.count = int(v)
			}
		case strings.HasPrefix(part, "maxlen:"):
			if v, err := strconv.ParseUint(part[7:], 10, 64); err == nil {
				ti.count, ti.maxlen, ti.hasMax = tlsByteCount(v), v, true
			}
		case strings.HasPrefix(part, "minlen:"):
			if v, err := strconv.ParseUint(part[7:], 10, 64); err == nil {
				ti.minlen, ti.hasMin = v, true
			}
		case strings.HasPrefix(part, "selector:"):
			ti.selector = part[9:]
		case strings.HasPrefix(part, "val:"):
			if v, err := strconv.ParseUint(part[4:], 10, 64); err == nil {
				ti.val, ti.hasVal = v, true
			}
		}
	}
	return ti
}

var (
	reEnum   = regexp.MustCompile(`^enum\((\d+)\)$`)
	reOpaque = regexp.MustCompile(`^opaque<(\d+)\.\.(\d+)>$`)
	reArray  = regexp.MustCompile(`^opaque\[(\d+)\]$`)
	reVector = regexp.MustCompile(`^vector<(\d+)\.\.(\d+)> of (\w+)$`)
	reStruct = regexp.MustCompile(`^struct (\w+)$`)
	reSelect = regexp.MustCompile(`^select\((\w+)=(\d+)\) (\w+)$`)
)

func typeName(t types.Type) string {
	if n, ok := t.(*types.Named); ok {
		return n.Obj().Name()
	}
	return t.String()
}

func isByte(t types.Type) bool {
	b, ok := t.Underlying().(*types.Basic)
	return ok && b.Kind() == types.Uint8
}

// wireProblems lists how a Go field type and its tls tag differ from the wire form of the table.
func wireProblems(t types.Type, tag, wire string) []string {
	ti := parseTLSTag(tag)
	var probs []string
	bounds := func(lo, hi string) {
		a, _ := strconv.ParseUint(lo, 10, 64)
		b, _ := strconv.ParseUint(hi, 10, 64)
		if !ti.hasMax || ti.maxlen != b {
			probs = append(probs, fmt.Sprintf("tag %q: maximum length is not %d", tag, b))
		}
		if (ti.hasMin && ti.minlen != a) || (!ti.hasMin && a != 0) {
			probs = append(probs, fmt.Sprintf("tag %q: minimum length is not %d", tag, a))
		}
		if ti.count != tlsByteCount(b) {
			probs = append(probs, fmt.Sprintf("tag %q: the length prefix is not %d octets", tag, tlsByteCount(b)))
		}
	}
	basicKind := func(k types.BasicKind, named string) {
		b, ok := t.Underlying().(*types.Basic)
		if !ok || b.Kind() != k {
			probs = append(probs, fmt.Sprintf("Go type %s is not of kind %s", t, named))
		}
		if tag != "" {
			probs = append(probs, fmt.Sprintf("a fixed-width integer takes no tls tag (has %q)", tag))
		}
	}
	switch {
	case wire == "uint8":
		basicKind(types.Uint8, "uint8")
	case wire == "uint16":
		basicKind(types.Uint16, "uint16")
	case wire == "uint32":
		basicKind(types.Uint32, "uint32")
		if typeName(t) == "Uint24" {
			probs = append(probs, "Go type is tls.Uint24 (three octets on the wire)")
		}
	case wire == "uint24":
		if typeName(t) != "Uint24" {
			probs = append(probs, fmt.Sprintf("Go type %s is not tls.Uint24", t))
		}
	case wire == "uint64":
		basicKind(types.Uint64, "uint64")
		if _, ok := t.(*types.Named); ok {
			probs = append(probs, fmt.Sprintf("Go type %s is a named type (the codec treats named uint64 kinds as enums, which need a size)", t))
		}
	case reEnum.MatchString(wire):
		m := reEnum.FindStringSubmatch(wire)
		n, _ := strconv.Atoi(m[1])
		b, ok := t.Underlying().(*types.Basic)
		if !ok || b.Kind() != types.Uint64 {
			probs = append(probs, fmt.Sprintf("Go type %s is not a tls.Enum (uint64) kind", t))
		}
		if ti.count != n {
			probs = append(probs, fmt.Sprintf("tag %q gives %d octets, the enum takes %d", tag, ti.count, n))
		}
		if ti.hasMin || ti.hasMax || ti.selector != "" {
			probs = append(probs, fmt.Sprintf("tag %q: an enum takes only maxval/size", tag))
		}
	case reOpaque.MatchString(wire):
		m := reOpaque.FindStringSubmatch(wire)
		sl, ok := t.Underlying().(*types.Slice)
		if !ok || !isByte(sl.Elem()) {
			probs = append(probs, fmt.Sprintf("Go type %s is not a byte slice", t))
		}
		bounds(m[1], m[2])
	case reArray.MatchString(wire):
		m := reArray.FindStringSubmatch(wire)
		n, _ := strconv.ParseInt(m[1], 10, 64)
		ar, ok := t.Underlying().(*types.Array)
		if !ok || !isByte(ar.Elem()) || ar.Len() != n {
			probs = append(probs, fmt.Sprintf("Go type %s is not [%d]byte", t, n))
		}
		if tag != "" {
			probs = append(probs, fmt.Sprintf("a fixed-length array takes no tls tag (has %q)", tag))
		}
	case reVector.MatchString(wire):
		m := reVector.FindStringSubmatch(wire)
		sl, ok := t.Underlying().(*types.Slice)
		if !ok || typeName(sl.Elem()) != m[3] {
			probs = append(probs, fmt.Sprintf("Go type %s is not a slice of %s", t, m[3]))
		}
		bounds(m[1], m[2])
	case reStruct.MatchString(wire):
		m := reStruct.FindStringSubmatch(wire)
		if _, ok := t.Underlying().(*types.Struct); !ok || typeName(t) != m[1] {
			probs = append(probs, fmt.Sprintf("Go type %s is not the struct %s", t, m[1]))
		}
		if ti.selector != "" {
			probs = append(probs, fmt.Sprintf("tag %q makes the field a variant", tag))
		}
	case reSelect.MatchString(wire):
		m := reSelect.FindStringSubmatch(wire)
		v, _ := strconv.ParseUint(m[2], 10, 64)
		pt, ok := t.Underlying().(*types.Pointer)
		if !ok || typeName(pt.Elem()) != m[3] {
			probs = append(probs, fmt.Sprintf("Go type %s is not *%s", t, m[3]))
		}
		if ti.selector != m[1] || (ti.hasVal && ti.val != v) || (!ti.hasVal && v != 0) {
			probs = append(probs, fmt.Sprintf("tag %q does not select on %s == %d", tag, m[1], v))
		}
		if ti.count > 0 || ti.hasMin || ti.hasMax {
			probs = append(probs, fmt.Sprintf("tag %q: a variant of struct type takes no size or bounds", tag))
		}
	default:
		probs = append(probs, fmt.Sprintf("layout table: unknown wire form %q", wire))
	}
	return probs
}

package main

// SSA function -> verification conditions.

import (
	"fmt"
	"go/constant"
	"go/token"
	"go/types"
	"math/big"
	"sort"
	"strings"

	"golang.org/x/tools/go/ssa"
)

// qhyp is a quantified hypothesis kept for re-instantiation when new index terms appear.
type qhyp struct {
	done   int
	env    *Env
	x      *Expr
	guard  string
	origin string
}

type Assume struct {
	Guard  string
	Fact   string
	Origin string
}

type Obligation struct {
	Name    string
	Kind    string
	Fn      string
	Props   []string
	Guard   string
	Goal    string
	NDecl   int
	NAssume int
	Expect  string // "unsat" (proof) or "sat" (cover)
	Clause  string
	Pos     string
	tr      *FnTrans

	Status     string // discharged | failed | cover-ok | vacuous | error
	Answer     string // solver answer
	Solver     string
	TimeS      float64
	Model      string
	SmtSize    int
	SecondPass bool   // undecided in the parallel pass, re-run with four times the budget
	Region     string // known-finding carve-out applied

	Syntactic  bool
	Extra      []Assume
	env        *Env
	rt         *replayTemplate
	valueKeys  []string
	valueTerms []string
	smallTerms []string
}

// Site is a recorded call event.
type Site struct {
	Instr      ssa.CallInstruction
	Callee     string
	Args       []Val
	Recv       *Val
	Results    []Val
	ResNames   []string
	ParamNames []string
	Reach      string
	Before     *Heap
	After      *Heap
	Block      *ssa.BasicBlock
	Index      int
	Pos        token.Pos
	Missing    bool
	Invoked    map[string]invokedFn // function-typed arguments the callee is declared to call
}

// invokedFn: what is known about the calls a callee made to a function it was handed.
type invokedFn struct {
	Invoked string // Bool term: it was called at least once
	Results []Val  // results of the last call
}

type BState struct {
	reach   string
	heap    *Heap
	lastNow string // instant of the most recent time.Now() reading on this path (empty: none known)
	ac      string // allocation counter: every object existing at this point has a smaller id
}

type FnTrans struct {
	eng          *Engine
	fn           *ssa.Function
	c            *Contract
	smt          *Smt
	name         string // display name pkg.func
	inapplicable string // set by evalGoal when a clause of the contract cannot be evaluated; consumed by the next oblige
	props        []string

	assumes []Assume
	obls    []*Obligation
	oblCnt  map[string]int

	vals               map[ssa.Value]Val
	in                 map[*ssa.BasicBlock]*BState // state at block entry (after phis)
	out                map[*ssa.BasicBlock]*BState
	edge               map[[2]int]string // edge condition (includes source reach)
	backEdge           map[[2]int]bool
	loopOf             map[*ssa.BasicBlock]int // header -> ordinal (source order)
	loopBody           map[*ssa.BasicBlock][]*ssa.BasicBlock
	entryHeap          *Heap
	sites              map[ssa.CallInstruction]*Site
	siteByAlias        map[string]*Site
	siteDeclOf         map[ssa.CallInstruction][]string
	allocID            int
	defers             []*ssa.Defer
	retCnt             int
	abstracted         map[string]int
	usedSpecs          map[string]bool
	notes              []string
	curBlock           *ssa.BasicBlock
	curIdx             int
	lets               map[string]*Expr
	siteInstr          map[string]ssa.CallInstruction
	ghostSites         map[string]*Site
	loopInfo           map[int]string
	closures           map[string]*ssa.MakeClosure
	ifaceTests         map[string]types.Type
	returns            []retInfo
	siteErrors         []string
	copyFacts          []copyFact
	curState           *BState
	curEnv             *Env
	idxCands           []Val
	clauseCandSet      map[string]bool // index terms contract clauses read slices at
	pureKnown, pureVal bool
	storeSites         map[*ssa.Store][]string
	eventSites         map[eventKey][]string // channel operations named by the contract
	eventAliases       map[string]bool
	missingSites       []SiteDecl
	floatUsed          bool
	usedGlobalInvs     map[string]Clause
	modAllowed         []string
	heapAnc            map[string][]*frameFact
	baseAC             map[string]string
	heapBases          map[string][]string
	baseDone           map[string]bool
	frameDone          map[string]bool
	loopObjs           []*ssa.Alloc
	loopObjPaths       map[*ssa.Alloc][][]int
	pendingDecoded     []pendingDec
	symAllocs          []string
	reinst             []func([]Val)
	skolems            []Val
	sink               *[]Assume
	lastReinst         int
	frames             []frameFact
	qhyps              []*qhyp
	deferredEx         []func() string // goal existentials whose instances are chosen at oblige time
	obWit              []Val           // witness terms named by hypotheses while instantiating for the current obligation
	deferEx            bool
	privMaps           []*ssa.MakeMap
	rangeVisited       map[*ssa.Range]string // ghost: keys a range-over-map loop has yielded so far
	rangeDom0          map[*ssa.Range]string // ghost: key set of the map when the iteration started
	onlyChecks         []onlyCheck
	stableFlds         []stableFld
	concats            [][3]string // string concatenations translated so far (left, right, result)
	wantTy             types.Type  // Go type of the quantified variable candidates are being chosen for
	witTerms           []Val       // every witness term hypotheses have named (instances for goal existentials)
	assumeSeen         map[string]bool
	allocs             []*ssa.Alloc
	escCache           map[*ssa.Alloc]bool
	curLoopBlocks      map[*ssa.BasicBlock]bool
	stableVals         []Val
	stableTypes        []types.Type
	autoInvs           map[*ssa.BasicBlock]func(string, int) string
	autoPhis           map[*ssa.BasicBlock][]*ssa.Phi
	localTypes         map[string]types.Type
	ghostLocals        map[string]Val
}

func (tr *FnTrans) note(format string, a ...interface{}) {
	tr.notes = append(tr.notes, fmt.Sprintf(format, a...))
}

func (tr *FnTrans) assume(guard, fact, origin string) {
	if fact == "true" {
		return
	}
	if tr.assumeSeen == nil {
		tr.assumeSeen = map[string]bool{}
	}
	if tr.sink != nil {
		*tr.sink = append(*tr.sink, Assume{guard, fact, origin})
		return
	}
	key := guard + "|" + fact
	if tr.assumeSeen[key] {
		return
	}
	tr.assumeSeen[key] = true
	tr.assumes = append(tr.assumes, Assume{guard, fact, origin})
}

func (tr *FnTrans) oblige(kind, clause, guard, goal string, pos token.Pos) *Obligation {
	if tr.inapplicable != "" {
		msg := tr.inapplicable
		tr.inapplicable = ""
		tr.oblCnt[kind]++
		o := &Obligation{Name: fmt.Sprintf("%s/%s#%d", tr.name, kind, tr.oblCnt[kind]), Kind: kind, Fn: tr.name, Props: tr.props,
			Expect: "unsat", Clause: clause, tr: tr, Syntactic: true, Solver: "syntactic", Status: "failed", Answer: "syntactic",
			Model: "the clause cannot be evaluated against the code as it is now: " + msg}
		if pos.IsValid() {
			p := tr.fn.Prog.Fset.Position(pos)
			o.Pos = fmt.Sprintf("%s:%d", p.Filename, p.Line)
		}
		tr.obls = append(tr.obls, o)
		return o
	}
	tr.reinstantiate()
	// the goal may have introduced skolem constants: instantiate the hypotheses with them, for this
	// obligation only
	var extra []Assume
	tr.obWit = nil
	if len(tr.skolems) > 0 {
		sk := tr.skolems
		tr.skolems = nil
		tr.sink = &extra
		tr.instantiateWith(sk)
		tr.sink = nil
	}
	if len(tr.deferredEx) > 0 {
		ds := tr.deferredEx
		tr.deferredEx = nil
		was := tr.deferEx
		tr.deferEx = false
		for _, d := range ds {
			extra = append(extra, Assume{"true", d(), "instances of a goal existential"})
		}
		tr.deferEx = was
		// the instances may contain universals of their own (skolemised just now): the hypotheses
		// are instantiated with those constants as well
		if len(tr.skolems) > 0 {
			sk := tr.skolems
			tr.skolems = nil
			tr.sink = &extra
			tr.instantiateWith(sk)
			tr.sink = nil
		}
	}
	tr.obWit = nil
	tr.oblCnt[kind]++
	name := fmt.Sprintf("%s/%s#%d", tr.name, kind, tr.oblCnt[kind])
	o := &Obligation{Name: name, Kind: kind, Fn: tr.name, Props: tr.props, Guard: guard, Goal: goal,
		NDecl: len(tr.smt.decls), NAssume: len(tr.assumes), Expect: "unsat", Clause: clause, tr: tr, Extra: extra}
	if pos.IsValid() {
		p := tr.fn.Prog.Fset.Position(pos)
		o.Pos = fmt.Sprintf("%s:%d", p.Filename, p.Line)
	}
	// environment at this point, for replay values and known-finding regions
	switch {
	case tr.curEnv != nil:
		o.env = tr.curEnv
	case tr.curState != nil && tr.curBlock != nil:
		o.env = tr.envAt(tr.curBlock, tr.curIdx, tr.curState.heap, tr.entryHeap)
	}
	if rt := tr.eng.replayTemplates[tr.name]; rt != nil && o.env != nil && kind != "pre-sat" {
		o.rt = rt
		o.valueTerms, o.valueKeys = tr.replayTerms(o, rt)
		o.NDecl, o.NAssume = len(tr.smt.decls), len(tr.assumes)
	}
	tr.obls = append(tr.obls, o)
	return o
}

// safety emits a no-panic obligation and then assumes its condition.
func (tr *FnTrans) safety(kind, what string, st *BState, cond string, pos token.Pos) {
	if cond == "true" {
		return
	}
	if !(tr.c != nil && tr.c.MayPanic) {
		tr.oblige("safety:"+kind, what, st.reach, cond, pos)
	} else {
		// declared `may panic`: the no-panic conditions of this function are assumed, not proved
		tr.usedSpecs["no-panic conditions of "+tr.name+" assumed, not proved (contract says `may panic`): the clauses of its contract hold for executions that do not panic"] = true
	}
	tr.assume(st.reach, cond, "after safety:"+kind)
}

func (tr *FnTrans) text(o *Obligation) string { return tr.textWith(o, nil) }

func (tr *FnTrans) textWith(o *Obligation, extra []string) string {
	var b strings.Builder
	b.WriteString("(set-option :produce-models true)\n")
	if tr.smt.intMode {
		b.WriteString("(set-logic ALL)\n")
	} else {
		b.WriteString("(set-logic ALL)\n")
	}
	for _, l := range tr.smt.prelude {
		b.WriteString(l)
		b.WriteByte('\n')
	}
	for _, l := range tr.ifaceAxioms() {
		b.WriteString(l)
		b.WriteByte('\n')
	}
	if d := tr.smt.strDistinct(); d != "" {
		b.WriteString(d)
		b.WriteByte('\n')
	}
	for _, l := range tr.smt.decls[:o.NDecl] {
		b.WriteString(l)
		b.WriteByte('\n')
	}
	for _, a := range append(append([]Assume{}, tr.assumes[:o.NAssume]...), o.Extra...) {
		if a.Guard == "true" {
			fmt.Fprintf(&b, "(assert %s) ; %s\n", a.Fact, a.Origin)
		} else {
			fmt.Fprintf(&b, "(assert (=> %s %s)) ; %s\n", a.Guard, a.Fact, a.Origin)
		}
	}
	fmt.Fprintf(&b, "; obligation %s : %s\n", o.Name, trunc(o.Clause, 200))
	fmt.Fprintf(&b, "(assert %s)\n", o.Guard)
	if o.Expect == "unsat" {
		fmt.Fprintf(&b, "(assert (not %s))\n", o.Goal)
	}
	for _, x := range extra {
		fmt.Fprintf(&b, "(assert %s)\n", x)
	}
	b.WriteString("(check-sat)\n")
	if len(o.valueTerms) > 0 {
		fmt.Fprintf(&b, "(get-value (%s))\n", strings.Join(o.valueTerms, " "))
	}
	return b.String()
}

// ---------------------------------------------------------------- values

func (tr *FnTrans) lit64(v int64) string { return tr.smt.intLit(big.NewInt(v), 64) }

func (tr *FnTrans) constVal(c *ssa.Const) Val {
	t := c.Type()
	if c.Value == nil {
		return Val{T: tr.smt.zero(t), Ty: t}
	}
	switch u := t.Underlying().(type) {
	case *types.Basic:
		switch {
		case u.Info()&types.IsBoolean != 0:
			if constant.BoolVal(c.Value) {
				return Val{T: "true", Ty: t}
			}
			return Val{T: "false", Ty: t}
		case u.Info()&types.IsInteger != 0:
			bi, ok := constant.Val(constant.ToInt(c.Value)).(*big.Int)
			if !ok {
				i64, _ := constant.Int64Val(constant.ToInt(c.Value))
				bi = big.NewInt(i64)
			}
			return Val{T: tr.smt.intLit(bi, intWidth(u)), Ty: t}
		case u.Info()&types.IsString != 0:
			return Val{T: tr.smt.strLit(constant.StringVal(c.Value)), Ty: t}
		case u.Info()&(types.IsFloat|types.IsComplex) != 0:
			// floating point is modelled with real arithmetic (listed assumption)
			fv := constant.ToFloat(c.Value)
			if fv.Kind() == constant.Float {
				num, den := constant.Num(fv), constant.Denom(fv)
				ns, ds := num.ExactString(), den.ExactString()
				neg := strings.HasPrefix(ns, "-")
				ns = strings.TrimPrefix(ns, "-")
				term := fmt.Sprintf("(/ %s.0 %s.0)", ns, ds)
				if neg {
					term = "(- " + term + ")"
				}
				return Val{T: term, Ty: t}
			}
			return Val{T: tr.smt.fresh("fconst", "F64"), Ty: t}
		}
	}
	panic(unsupported("constant of type " + t.String()))
}

func (tr *FnTrans) globalAddr(g *ssa.Global) string {
	key := g.Pkg.Pkg.Path() + "." + g.Name()
	id, ok := tr.eng.globalIDs[key]
	if !ok {
		id = len(tr.eng.globalIDs) + 1
		tr.eng.globalIDs[key] = id
	}
	return fmt.Sprintf("(glob %d)", id)
}

func (tr *FnTrans) val(v ssa.Value) Val {
	if x, ok := tr.vals[v]; ok {
		return x
	}
	switch c := v.(type) {
	case *ssa.Const:
		return tr.constVal(c)
	case *ssa.Global:
		return Val{T: tr.globalAddr(c), Ty: c.Type()}
	case *ssa.Function:
		name := "fn_" + sanitize(c.String())
		if !tr.smt.ufs[name] {
			tr.smt.ufs[name] = true
			tr.smt.prelude = append(tr.smt.prelude, fmt.Sprintf("(declare-const %s Ref)", name), fmt.Sprintf("(assert (not (= %s nil)))", name))
		}
		return Val{T: name, Ty: c.Type()}
	case *ssa.Builtin:
		return Val{T: "nil", Ty: c.Type()}
	case *ssa.Parameter:
		x := tr.introduce(v.Name(), v.Type(), "true", "param")
		tr.vals[v] = x
		return x
	case *ssa.FreeVar:
		x := tr.introduce(v.Name(), v.Type(), "true", "captured variable")
		tr.vals[v] = x
		if capturedByRef(c) {
			// the address of a variable of the enclosing function: never nil
			tr.assume("true", fmt.Sprintf("(not (= %s nil))", x.T), "captured variable "+v.Name()+" lives in the enclosing function")
			// it is a variable of its own (a root location), different from the other captured variables
			tr.assume("true", fmt.Sprintf("((_ is loc) %s)", x.T), "captured variable "+v.Name()+" is a variable, not part of another object")
			for _, o := range c.Parent().FreeVars {
				if o == c {
					break
				}
				if ov, ok := tr.vals[o]; ok && capturedByRef(o) {
					tr.assume("true", fmt.Sprintf("(not (= %s %s))", x.T, ov.T), "distinct captured variables")
				}
			}
		}
		return x
	}
	panic(unsupported(fmt.Sprintf("value %s (%T) used before definition", v.Name(), v)))
}

// introduce creates a fresh unconstrained value of the given type and assumes
// the runtime's type invariants for it.
func (tr *FnTrans) introduce(prefix string, t types.Type, guard, origin string) Val {
	if tup, ok := t.(*types.Tuple); ok {
		var vs []Val
		for i := 0; i < tup.Len(); i++ {
			vs = append(vs, tr.introduce(fmt.Sprintf("%s_%d", prefix, i), tup.At(i).Type(), guard, origin))
		}
		return Val{Tuple: vs, Ty: t}
	}
	srt := tr.smt.sortOf(t)
	n := tr.smt.fresh(prefix, srt)
	tr.wf(n, t, guard, origin)
	return Val{T: n, Ty: t}
}

// wf assumes the runtime invariants of a value of type t.
func (tr *FnTrans) curAC() string {
	if tr.curState != nil && tr.curState.ac != "" {
		return tr.curState.ac
	}
	return "ac0"
}

func (tr *FnTrans) wf(term string, t types.Type, guard, origin string) {
	switch u := t.Underlying().(type) {
	case *types.Pointer, *types.Map, *types.Chan:
		tr.assume(guard, fmt.Sprintf("(< (rootloc %s) %s)", term, tr.curAC()), "existing object "+origin)
	case *types.Slice:
		tr.assume(guard, fmt.Sprintf("(wfslice %s)", term), "wf "+origin)
		tr.assume(guard, fmt.Sprintf("(< (rootloc (sbase %s)) %s)", term, tr.curAC()), "existing object "+origin)
	case *types.Basic:
		if u.Info()&types.IsString != 0 {
			tr.assume(guard, fmt.Sprintf("(wfstr %s)", term), "wf "+origin)
		}
		if tr.smt.intMode && u.Info()&types.IsInteger != 0 {
			lo, hi := intRange(t)
			tr.assume(guard, fmt.Sprintf("(and (<= %s %s) (<= %s %s))", tr.smt.intLit(lo, 0), term, term, tr.smt.intLit(hi, 0)), "range "+origin)
		}
	case *types.Interface:
		tr.assume(guard, fmt.Sprintf("(and (>= (itag %s) 0) (=> (= (itag %s) 0) (= (idata %s) 0)))", term, term, term), "wf "+origin)
		if nt, ok := t.(*types.Named); ok && nt.Obj().Pkg() != nil && nt.Obj().Pkg().Path() == "reflect" && nt.Obj().Name() == "Type" {
			// reflect never hands out a nil Type from Type(), Elem(), Field(i).Type (it panics instead)
			tr.assume(guard, fmt.Sprintf("(not (= (itag %s) 0))", term), "reflect.Type values are non-nil")
		}
	case *types.Struct:
		name := tr.smt.sortOf(t)
		for i := 0; i < u.NumFields(); i++ {
			ft := u.Field(i).Type()
			if needsWF(ft, 0) {
				tr.wf(fmt.Sprintf("(%s_f%d %s)", name, i, term), ft, guard, origin)
			}
		}
	}
}

func needsWF(t types.Type, depth int) bool {
	if depth > 6 {
		return false
	}
	switch u := t.Underlying().(type) {
	case *types.Slice, *types.Interface, *types.Pointer, *types.Map, *types.Chan:
		return true
	case *types.Basic:
		return u.Info()&(types.IsString|types.IsInteger) != 0
	case *types.Struct:
		for i := 0; i < u.NumFields(); i++ {
			if needsWF(u.Field(i).Type(), depth+1) {
				return true
			}
		}
	}
	return false
}

func intRange(t types.Type) (*big.Int, *big.Int) {
	w := intWidth(t)
	one := big.NewInt(1)
	if isUnsigned(t) {
		return big.NewInt(0), new(big.Int).Sub(new(big.Int).Lsh(one, uint(w)), one)
	}
	hi := new(big.Int).Sub(new(big.Int).Lsh(one, uint(w-1)), one)
	lo := new(big.Int).Neg(new(big.Int).Lsh(one, uint(w-1)))
	return lo, hi
}

// ---------------------------------------------------------------- memory

func (tr *FnTrans) fldAddr(base string, st *types.Struct, i int) string {
	return fmt.Sprintf("(fld %s %d)", base, tr.smt.fieldID(st, i))
}

func (tr *FnTrans) elemAddr(base, idx string) string {
	return fmt.Sprintf("(elem %s %s)", base, idx)
}

const maxArrayUnfold = 64

// load reads a value of type t at address addr (deep for structs / arrays).
func (tr *FnTrans) load(h *Heap, addr string, t types.Type, guard string, quiet bool) string {
	switch u := t.Underlying().(type) {
	case *types.Struct:
		name := tr.smt.sortOf(t)
		if u.NumFields() == 0 {
			return "mk" + name
		}
		var fs []string
		for i := 0; i < u.NumFields(); i++ {
			fs = append(fs, tr.load(h, tr.fldAddr(addr, u, i), u.Field(i).Type(), guard, quiet))
		}
		return fmt.Sprintf("(mk%s %s)", name, strings.Join(fs, " "))
	case *types.Array:
		srt := tr.smt.sortOf(t)
		if u.Len() > maxArrayUnfold {
			tr.note("array value of length %d loaded as unconstrained", u.Len())
			return tr.smt.fresh("bigarr", srt)
		}
		acc := fmt.Sprintf("((as const %s) %s)", srt, tr.smt.zero(u.Elem()))
		for i := int64(0); i < u.Len(); i++ {
			idx := tr.lit64(i)
			acc = fmt.Sprintf("(store %s %s %s)", acc, idx, tr.load(h, tr.elemAddr(addr, idx), u.Elem(), guard, quiet))
		}
		return acc
	}
	srt := tr.smt.sortOf(t)
	hterm := h.lookup(srt)
	term := fmt.Sprintf("(select %s %s)", hterm, addr)
	tr.frameInstances(hterm, addr)
	tr.existingObjectFacts(hterm, addr, t)
	if c := h.asOfCounter(); c != "" && !strings.Contains(addr, "%%") {
		// the state right after a call: whatever pointer memory holds was allocated before that moment
		switch t.Underlying().(type) {
		case *types.Pointer, *types.Map, *types.Chan:
			tr.assume("true", fmt.Sprintf("(< (rootloc %s) %s)", term, c), "pointer in memory right after a call refers to an object allocated before that moment")
		case *types.Slice:
			tr.assume("true", fmt.Sprintf("(< (rootloc (sbase %s)) %s)", term, c), "pointer in memory right after a call refers to an object allocated before that moment")
		}
	}
	if !quiet && needsWF(t, 0) {
		if _, isInt := t.Underlying().(*types.Basic); !isInt || tr.smt.intMode || isStringType(t) {
			n := tr.smt.define("ld", srt, term)
			tr.wf(n, t, guard, "load")
			return n
		}
	}
	return term
}

func isStringType(t types.Type) bool {
	b, ok := t.Underlying().(*types.Basic)
	return ok && b.Info()&types.IsString != 0
}

// store writes v of type t at addr, updating h in place.
func (tr *FnTrans) store(h *Heap, addr string, t types.Type, v string) {
	switch u := t.Underlying().(type) {
	case *types.Struct:
		name := tr.smt.sortOf(t)
		for i := 0; i < u.NumFields(); i++ {
			tr.store(h, tr.fldAddr(addr, u, i), u.Field(i).Type(), fmt.Sprintf("(%s_f%d %s)", name, i, v))
		}
		return
	case *types.Array:
		if u.Len() > maxArrayUnfold {
			tr.note("store of array value of length %d: element heap havocked", u.Len())
			es := tr.smt.sortOf(u.Elem())
			h.set(es, tr.smt.fresh("Hbig", h.arraySort(es)))
			return
		}
		for i := int64(0); i < u.Len(); i++ {
			idx := tr.lit64(i)
			tr.store(h, tr.elemAddr(addr, idx), u.Elem(), fmt.Sprintf("(select %s %s)", v, idx))
		}
		return
	}
	srt := tr.smt.sortOf(t)
	cur := h.lookup(srt)
	nt := tr.smt.define("H_"+heapKey(srt), h.arraySort(srt), fmt.Sprintf("(store %s %s %s)", cur, addr, v))
	if anc := tr.heapAnc[cur]; len(anc) > 0 {
		tr.heapAnc[nt] = anc
	}
	if b := tr.heapBases[cur]; len(b) > 0 {
		tr.heapBases[nt] = b
	}
	h.set(srt, nt)
}

// existingObjectFacts: a pointer or slice read from memory refers to an object that existed when
// the unconstrained heap array it ultimately comes from was introduced (unless the function itself
// stored it, in which case the read yields the stored term).
func (tr *FnTrans) existingObjectFacts(hterm, addr string, t types.Type) {
	var root func(string) string
	switch t.Underlying().(type) {
	case *types.Pointer, *types.Map, *types.Chan:
		root = func(v string) string { return fmt.Sprintf("(rootloc %s)", v) }
	case *types.Slice:
		root = func(v string) string { return fmt.Sprintf("(rootloc (sbase %s))", v) }
	default:
		return
	}
	if strings.Contains(addr, "q%%") || strings.Contains(addr, "r%%") || strings.Contains(addr, "p%%") {
		return
	}
	for _, b := range tr.heapBases[hterm] {
		ac := tr.baseAC[b]
		if ac == "" {
			continue
		}
		key := b + "|" + addr
		if tr.baseDone[key] {
			continue
		}
		if tr.sink == nil {
			tr.baseDone[key] = true
		}
		// only cells of objects that existed when this heap version came into being: the cells of an
		// object a pure callee allocates later live in the same array and may point to newer objects
		tr.assume("true", fmt.Sprintf("(=> (< (rootloc %s) %s) (< %s %s))", addr, ac, root(fmt.Sprintf("(select %s %s)", b, addr)), ac), "pointer in memory refers to an object that already existed")
	}
}

// frameInstances adds, for a read at addr from a heap derived from bulk updates (append, copy), the
// frame fact of each such update instantiated at addr: cells outside the updated range are unchanged.
func (tr *FnTrans) frameInstances(hterm, addr string) {
	anc := tr.heapAnc[hterm]
	if len(anc) == 0 || strings.Contains(addr, "q%%") || strings.Contains(addr, "r%%") || strings.Contains(addr, "p%%") {
		return
	}
	for _, ff := range anc {
		key := ff.nw + "|" + addr
		if tr.frameDone[key] {
			continue
		}
		if tr.sink == nil {
			tr.frameDone[key] = true
		}
		tr.assume(ff.guard, fmt.Sprintf("(=> (not %s) (= (select %s %s) (select %s %s)))", ff.changedOf(addr), ff.nw, addr, ff.old, addr), "frame of bulk update at the address read")
		tr.frameInstances(ff.old, addr)
	}
}

// cellSorts collects the cell sorts a value of type t occupies in memory.
func (tr *FnTrans) cellSorts(t types.Type, out map[string]bool) {
	switch u := t.Underlying().(type) {
	case *types.Struct:
		for i := 0; i < u.NumFields(); i++ {
			tr.cellSorts(u.Field(i).Type(), out)
		}
	case *types.Array:
		tr.cellSorts(u.Elem(), out)
	default:
		out[tr.smt.sortOf(t)] = true
	}
}

// reachableCells computes the cell sorts reachable through pointers from a value of
// type t; all=true when something opaque (interface, func, map, chan, unsafe) is reachable.
func (tr *FnTrans) reachableCells(t types.Type, out map[string]bool, seen map[types.Type]bool, all *bool, throughPtr bool) {
	if seen[t] {
		return
	}
	seen[t] = true
	switch u := t.Underlying().(type) {
	case *types.Pointer:
		tr.cellSorts(u.Elem(), out)
		tr.reachableCells(u.Elem(), out, seen, all, true)
	case *types.Slice:
		tr.cellSorts(u.Elem(), out)
		tr.reachableCells(u.Elem(), out, seen, all, true)
	case *types.Struct:
		for i := 0; i < u.NumFields(); i++ {
			tr.reachableCells(u.Field(i).Type(), out, seen, all, throughPtr)
		}
	case *types.Array:
		tr.reachableCells(u.Elem(), out, seen, all, throughPtr)
	case *types.Interface, *types.Signature, *types.Map, *types.Chan:
		*all = true
	case *types.Basic:
		if u.Kind() == types.UnsafePointer {
			*all = true
		}
	}
}

// ---------------------------------------------------------------- arithmetic

func (tr *FnTrans) conv(x Val, to types.Type) string {
	from := x.Ty
	fs, ts := tr.smt.sortOf(from), tr.smt.sortOf(to)
	switch {
	case isInteger(from) && isInteger(to):
		fw, tw := intWidth(from), intWidth(to)
		if tr.smt.intMode {
			lo, hi := intRange(to)
			flo, fhi := intRange(from)
			if flo.Cmp(lo) >= 0 && fhi.Cmp(hi) <= 0 {
				return x.T
			}
			// wrap-around conversion
			m := new(big.Int).Lsh(big.NewInt(1), uint(tw))
			if isUnsigned(to) {
				return fmt.Sprintf("(mod %s %s)", x.T, m.String())
			}
			half := new(big.Int).Rsh(m, 1)
			return fmt.Sprintf("(- (mod (+ %s %s) %s) %s)", x.T, half.String(), m.String(), half.String())
		}
		switch {
		case fw == tw:
			return x.T
		case fw > tw:
			return fmt.Sprintf("((_ extract %d 0) %s)", tw-1, x.T)
		case isUnsigned(from):
			return fmt.Sprintf("((_ zero_extend %d) %s)", tw-fw, x.T)
		default:
			return fmt.Sprintf("((_ sign_extend %d) %s)", tw-fw, x.T)
		}
	case fs == ts:
		return x.T
	case fs == "Str" && ts == "Slice":
		tr.smt.declareFun("str2bytes_base", []string{"Str", "Int"}, "Ref")
		tr.allocID++
		b := fmt.Sprintf("(str2bytes_base %s %d)", x.T, tr.allocID)
		tr.assume("true", fmt.Sprintf("(= (rootloc %s) (- 2))", b), "string bytes live outside the object heap")
		n := tr.smt.define("s2b", "Slice", fmt.Sprintf("(mkslice %s %s (strlen %s) (strlen %s))", b, tr.lit64(0), x.T, x.T))
		return n
	case fs == "Slice" && ts == "Str":
		n := tr.smt.fresh("b2s", "Str")
		tr.assume("true", fmt.Sprintf("(= (strlen %s) (slen %s))", n, x.T), "string(bytes) length")
		tr.smt.declareFun("is_b2s", []string{"Str", "Slice"}, "Bool")
		tr.assume("true", fmt.Sprintf("(is_b2s %s %s)", n, x.T), "string(bytes) origin")
		return n
	case ts == "Str" && isInteger(from):
		return tr.smt.fresh("i2s", "Str")
	case fs == "F64" && ts == "F64":
		return x.T
	case ts == "F64" && isInteger(from):
		tr.floatUsed = true
		return fmt.Sprintf("(to_real %s)", tr.toMathInt(x))
	case fs == "F64" && isInteger(to):
		tr.floatUsed = true
		trunc := fmt.Sprintf("(ite (>= %s 0.0) (to_int %s) (- (to_int (- %s))))", x.T, x.T, x.T)
		if tr.smt.intMode {
			return tr.wrapInt(trunc, to)
		}
		return fmt.Sprintf("((_ int2bv %d) %s)", intWidth(to), trunc)
	case ts == "F64" || fs == "F64":
		name := "conv_" + sanitize(fs) + "_" + sanitize(ts)
		tr.smt.declareFun(name, []string{fs}, ts)
		return fmt.Sprintf("(%s %s)", name, x.T)
	}
	// struct conversions with identical field sorts
	if fst, ok := from.Underlying().(*types.Struct); ok {
		if tst, ok := to.Underlying().(*types.Struct); ok && fst.NumFields() == tst.NumFields() {
			fn, tn := tr.smt.sortOf(from), tr.smt.sortOf(to)
			var fsx []string
			for i := 0; i < fst.NumFields(); i++ {
				fsx = append(fsx, tr.conv(Val{T: fmt.Sprintf("(%s_f%d %s)", fn, i, x.T), Ty: fst.Field(i).Type()}, tst.Field(i).Type()))
			}
			if len(fsx) == 0 {
				return "mk" + tn
			}
			return fmt.Sprintf("(mk%s %s)", tn, strings.Join(fsx, " "))
		}
	}
	panic(unsupported(fmt.Sprintf("conversion %s -> %s", from, to)))
}

// toMathInt renders a machine integer as an SMT Int term.
func (tr *FnTrans) toMathInt(x Val) string {
	if tr.smt.intMode || x.Ty == tyMath {
		return x.T
	}
	w := intWidth(x.Ty)
	if isUnsigned(x.Ty) {
		return fmt.Sprintf("(bv2nat %s)", x.T)
	}
	return fmt.Sprintf("(ite (bvslt %s %s) (- (bv2nat %s) %s) (bv2nat %s))", x.T, tr.smt.intLit(big.NewInt(0), w), x.T, new(big.Int).Lsh(big.NewInt(1), uint(w)).String(), x.T)
}

func (tr *FnTrans) boolNot(x string) string {
	switch x {
	case "true":
		return "false"
	case "false":
		return "true"
	}
	if strings.HasPrefix(x, "(not ") && strings.HasSuffix(x, ")") && balanced(x[5:len(x)-1]) {
		return x[5 : len(x)-1]
	}
	return "(not " + x + ")"
}

func balanced(s string) bool {
	d := 0
	for i := 0; i < len(s); i++ {
		switch s[i] {
		case '(':
			d++
		case ')':
			d--
			if d < 0 {
				return false
			}
		}
	}
	return d == 0
}

func and(xs ...string) string {
	var ys []string
	for _, x := range xs {
		if x == "true" {
			continue
		}
		if x == "false" {
			return "false"
		}
		ys = append(ys, x)
	}
	switch len(ys) {
	case 0:
		return "true"
	case 1:
		return ys[0]
	}
	return "(and " + strings.Join(ys, " ") + ")"
}

func or(xs ...string) string {
	var ys []string
	for _, x := range xs {
		if x == "false" {
			continue
		}
		if x == "true" {
			return "true"
		}
		ys = append(ys, x)
	}
	switch len(ys) {
	case 0:
		return "false"
	case 1:
		return ys[0]
	}
	return "(or " + strings.Join(ys, " ") + ")"
}

// intBin computes an integer binary operation of type t (operands already of that type,
// except shifts where y has its own type).
func (tr *FnTrans) intBin(op token.Token, x, y Val, t types.Type, st *BState, pos token.Pos) string {
	w := intWidth(t)
	uns := isUnsigned(t)
	s := tr.smt
	if s.intMode {
		return tr.intBinMath(op, x, y, t, st, pos)
	}
	switch op {
	case token.ADD:
		return fmt.Sprintf("(bvadd %s %s)", x.T, y.T)
	case token.SUB:
		return fmt.Sprintf("(bvsub %s %s)", x.T, y.T)
	case token.MUL:
		return fmt.Sprintf("(bvmul %s %s)", x.T, y.T)
	case token.QUO, token.REM:
		if st != nil {
			tr.safety("div", "division by zero", st, fmt.Sprintf("(not (= %s %s))", y.T, s.intLit(big.NewInt(0), w)), pos)
		}
		fn := map[bool]map[token.Token]string{true: {token.QUO: "bvudiv", token.REM: "bvurem"}, false: {token.QUO: "bvsdiv", token.REM: "bvsrem"}}[uns][op]
		return fmt.Sprintf("(%s %s %s)", fn, x.T, y.T)
	case token.AND:
		return fmt.Sprintf("(bvand %s %s)", x.T, y.T)
	case token.OR:
		return fmt.Sprintf("(bvor %s %s)", x.T, y.T)
	case token.XOR:
		return fmt.Sprintf("(bvxor %s %s)", x.T, y.T)
	case token.AND_NOT:
		return fmt.Sprintf("(bvand %s (bvnot %s))", x.T, y.T)
	case token.SHL, token.SHR:
		yw := intWidth(y.Ty)
		if yw == 0 {
			yw = 64
		}
		if !isUnsigned(y.Ty) && st != nil {
			tr.safety("shift", "negative shift count", st, fmt.Sprintf("(bvsge %s %s)", y.T, s.intLit(big.NewInt(0), yw)), pos)
		}
		// bring the count to width w, saturating
		var cnt, big_ string
		switch {
		case yw == w:
			cnt = y.T
			big_ = fmt.Sprintf("(bvuge %s %s)", y.T, s.intLit(big.NewInt(int64(w)), w))
		case yw < w:
			cnt = fmt.Sprintf("((_ zero_extend %d) %s)", w-yw, y.T)
			big_ = fmt.Sprintf("(bvuge %s %s)", cnt, s.intLit(big.NewInt(int64(w)), w))
		default:
			cnt = fmt.Sprintf("((_ extract %d 0) %s)", w-1, y.T)
			big_ = fmt.Sprintf("(bvuge %s %s)", y.T, s.intLit(big.NewInt(int64(w)), yw))
		}
		switch {
		case op == token.SHL:
			return fmt.Sprintf("(ite %s %s (bvshl %s %s))", big_, s.intLit(big.NewInt(0), w), x.T, cnt)
		case uns:
			return fmt.Sprintf("(ite %s %s (bvlshr %s %s))", big_, s.intLit(big.NewInt(0), w), x.T, cnt)
		default:
			return fmt.Sprintf("(ite %s (bvashr %s %s) (bvashr %s %s))", big_, x.T, s.intLit(big.NewInt(int64(w-1)), w), x.T, cnt)
		}
	}
	panic(unsupported("integer operator " + op.String()))
}

func (tr *FnTrans) intBinMath(op token.Token, x, y Val, t types.Type, st *BState, pos token.Pos) string {
	s := tr.smt
	var r string
	switch op {
	case token.ADD:
		r = fmt.Sprintf("(+ %s %s)", x.T, y.T)
	case token.SUB:
		r = fmt.Sprintf("(- %s %s)", x.T, y.T)
	case token.MUL:
		r = fmt.Sprintf("(* %s %s)", x.T, y.T)
	case token.QUO, token.REM:
		if st != nil {
			tr.safety("div", "division by zero", st, fmt.Sprintf("(not (= %s 0))", y.T), pos)
		}
		if op == token.QUO {
			r = fmt.Sprintf("(go_quo %s %s)", x.T, y.T)
		} else {
			return fmt.Sprintf("(go_rem %s %s)", x.T, y.T)
		}
	case token.SHL, token.SHR:
		c, ok := smtIntLit(y.T)
		if !ok || c < 0 || c > 127 {
			panic(unsupported("shift by a non-constant count in arith int mode"))
		}
		p := new(big.Int).Lsh(big.NewInt(1), uint(c)).String()
		if op == token.SHR {
			return fmt.Sprintf("(div %s %s)", x.T, p)
		}
		r = fmt.Sprintf("(* %s %s)", x.T, p)
	default:
		panic(unsupported("operator " + op.String() + " in arith int mode"))
	}
	if st != nil {
		// code arithmetic wraps exactly like the machine (modulus is a constant, so this stays linear)
		return s.define("ar", "Int", tr.wrapInt(r, t))
	}
	return r
}

// wrapInt reduces a mathematical integer to the value range of Go type t (two's complement wrap).
func (tr *FnTrans) wrapInt(r string, t types.Type) string {
	w := intWidth(t)
	m := new(big.Int).Lsh(big.NewInt(1), uint(w))
	if isUnsigned(t) {
		return fmt.Sprintf("(mod %s %s)", r, m.String())
	}
	half := new(big.Int).Rsh(m, 1)
	return fmt.Sprintf("(- (mod (+ %s %s) %s) %s)", r, half.String(), m.String(), half.String())
}

func smtIntLit(t string) (int64, bool) {
	var v int64
	if _, err := fmt.Sscanf(t, "%d", &v); err == nil && fmt.Sprint(v) == t {
		return v, true
	}
	return 0, false
}

func (tr *FnTrans) intCmp(op token.Token, x, y Val) string {
	if tr.smt.intMode {
		m := map[token.Token]string{token.LSS: "<", token.LEQ: "<=", token.GTR: ">", token.GEQ: ">="}
		return fmt.Sprintf("(%s %s %s)", m[op], x.T, y.T)
	}
	var m map[token.Token]string
	if isUnsigned(x.Ty) {
		m = map[token.Token]string{token.LSS: "bvult", token.LEQ: "bvule", token.GTR: "bvugt", token.GEQ: "bvuge"}
	} else {
		m = map[token.Token]string{token.LSS: "bvslt", token.LEQ: "bvsle", token.GTR: "bvsgt", token.GEQ: "bvsge"}
	}
	return fmt.Sprintf("(%s %s %s)", m[op], x.T, y.T)
}

func (tr *FnTrans) equal(x, y Val) string {
	if x.Ty != nil && containsArray(x.Ty, 0) {
		return tr.deepEq(x.T, y.T, x.Ty)
	}
	return fmt.Sprintf("(= %s %s)", x.T, y.T)
}

func containsArray(t types.Type, depth int) bool {
	if depth > 8 {
		return false
	}
	switch u := t.Underlying().(type) {
	case *types.Array:
		return true
	case *types.Struct:
		for i := 0; i < u.NumFields(); i++ {
			if containsArray(u.Field(i).Type(), depth+1) {
				return true
			}
		}
	}
	return false
}

// deepEq is Go's == on values that contain arrays: SMT arrays are compared on the indices the Go
// array has (their contents elsewhere are meaningless).
func (tr *FnTrans) deepEq(a, b string, t types.Type) string {
	switch u := t.Underlying().(type) {
	case *types.Array:
		if u.Len() > maxArrayUnfold {
			return fmt.Sprintf("(= %s %s)", a, b)
		}
		var cs []string
		for i := int64(0); i < u.Len(); i++ {
			idx := tr.lit64(i)
			cs = append(cs, tr.deepEq(fmt.Sprintf("(select %s %s)", a, idx), fmt.Sprintf("(select %s %s)", b, idx), u.Elem()))
		}
		return and(cs...)
	case *types.Struct:
		if !containsArray(t, 0) {
			return fmt.Sprintf("(= %s %s)", a, b)
		}
		name := tr.smt.sortOf(t)
		var cs []string
		for i := 0; i < u.NumFields(); i++ {
			cs = append(cs, tr.deepEq(fmt.Sprintf("(%s_f%d %s)", name, i, a), fmt.Sprintf("(%s_f%d %s)", name, i, b), u.Field(i).Type()))
		}
		return and(cs...)
	}
	return fmt.Sprintf("(= %s %s)", a, b)
}

func (tr *FnTrans) binop(op token.Token, x, y Val, resTy types.Type, st *BState, pos token.Pos) string {
	switch op {
	case token.EQL:
		return tr.equal(x, y)
	case token.NEQ:
		return tr.boolNot(tr.equal(x, y))
	}
	xt := x.Ty
	if isInteger(xt) {
		switch op {
		case token.LSS, token.LEQ, token.GTR, token.GEQ:
			return tr.intCmp(op, x, y)
		}
		return tr.intBin(op, x, y, resTy, st, pos)
	}
	srt := tr.smt.sortOf(xt)
	switch srt {
	case "Str":
		switch op {
		case token.ADD:
			n := tr.smt.define("cat", "Str", fmt.Sprintf("(str_concat %s %s)", x.T, y.T))
			tr.assume("true", fmt.Sprintf("(= (strlen %s) (%s (strlen %s) (strlen %s)))", n, tr.addOp(), x.T, y.T), "concat length")
			// cancellation, instantiated for the concatenations seen so far: p+a == p+b ==> a == b, a+s == b+s ==> a == b
			for _, c := range tr.concats {
				if c[0] == x.T && c[1] != y.T {
					tr.assume("true", fmt.Sprintf("(=> (= %s %s) (= %s %s))", n, c[2], y.T, c[1]), "string concatenation cancels on the left")
				}
				if c[1] == y.T && c[0] != x.T {
					tr.assume("true", fmt.Sprintf("(=> (= %s %s) (= %s %s))", n, c[2], x.T, c[0]), "string concatenation cancels on the right")
				}
			}
			tr.concats = append(tr.concats, [3]string{x.T, y.T, n})
			return n
		case token.LSS, token.LEQ, token.GTR, token.GEQ:
			tr.smt.declareFun("str_lt", []string{"Str", "Str"}, "Bool")
			switch op {
			case token.LSS:
				return fmt.Sprintf("(str_lt %s %s)", x.T, y.T)
			case token.GTR:
				return fmt.Sprintf("(str_lt %s %s)", y.T, x.T)
			case token.LEQ:
				return fmt.Sprintf("(not (str_lt %s %s))", y.T, x.T)
			default:
				return fmt.Sprintf("(not (str_lt %s %s))", x.T, y.T)
			}
		}
	case "F64":
		sym := map[token.Token]string{token.ADD: "+", token.SUB: "-", token.MUL: "*", token.QUO: "/", token.LSS: "<", token.LEQ: "<=", token.GTR: ">", token.GEQ: ">="}[op]
		if sym == "" {
			panic(unsupported("float operator " + op.String()))
		}
		tr.floatUsed = true
		return fmt.Sprintf("(%s %s %s)", sym, x.T, y.T)
	case "Bool":
		switch op {
		case token.AND, token.LAND:
			return and(x.T, y.T)
		case token.OR, token.LOR:
			return or(x.T, y.T)
		}
	}
	panic(unsupported(fmt.Sprintf("binary operator %s on %s", op, xt)))
}

func (tr *FnTrans) addOp() string {
	if tr.smt.intMode {
		return "+"
	}
	return "bvadd"
}

func (tr *FnTrans) ivAdd(a, b string) string {
	return fmt.Sprintf("(%s %s %s)", tr.addOp(), a, b)
}
func (tr *FnTrans) ivSub(a, b string) string {
	if tr.smt.intMode {
		return fmt.Sprintf("(- %s %s)", a, b)
	}
	return fmt.Sprintf("(bvsub %s %s)", a, b)
}
func (tr *FnTrans) ivLe(a, b string) string {
	if tr.smt.intMode {
		return fmt.Sprintf("(<= %s %s)", a, b)
	}
	return fmt.Sprintf("(bvsle %s %s)", a, b)
}
func (tr *FnTrans) ivLt(a, b string) string {
	if tr.smt.intMode {
		return fmt.Sprintf("(< %s %s)", a, b)
	}
	return fmt.Sprintf("(bvslt %s %s)", a, b)
}

// ---------------------------------------------------------------- CFG

func (tr *FnTrans) analyseCFG() error {
	fn := tr.fn
	tr.backEdge = map[[2]int]bool{}
	tr.loopOf = map[*ssa.BasicBlock]int{}
	tr.loopBody = map[*ssa.BasicBlock][]*ssa.BasicBlock{}
	var headers []*ssa.BasicBlock
	for _, b := range fn.Blocks {
		for _, s := range b.Succs {
			if s.Dominates(b) {
				tr.backEdge[[2]int{b.Index, s.Index}] = true
				if _, ok := tr.loopOf[s]; !ok {
					tr.loopOf[s] = 0
					headers = append(headers, s)
				}
			}
		}
	}
	// order loops by source position of the header's first positioned instruction
	pos := func(b *ssa.BasicBlock) token.Pos {
		best := token.NoPos
		for _, blk := range append([]*ssa.BasicBlock{b}, tr.naturalLoop(b)...) {
			for _, in := range blk.Instrs {
				if _, isPhi := in.(*ssa.Phi); isPhi {
					continue // a phi carries the position of the variable's declaration, which may precede an earlier loop
				}
				if p := in.Pos(); p.IsValid() && (!best.IsValid() || p < best) {
					best = p
				}
			}
		}
		return best
	}
	sort.SliceStable(headers, func(i, j int) bool { return pos(headers[i]) < pos(headers[j]) })
	for i, h := range headers {
		tr.loopOf[h] = i + 1
		tr.loopBody[h] = tr.naturalLoop(h)
	}
	return nil
}

// naturalLoop returns the blocks of the natural loop with header h.
func (tr *FnTrans) naturalLoop(h *ssa.BasicBlock) []*ssa.BasicBlock {
	in := map[*ssa.BasicBlock]bool{h: true}
	var stack []*ssa.BasicBlock
	for _, p := range h.Preds {
		if tr.backEdge[[2]int{p.Index, h.Index}] && !in[p] {
			in[p] = true
			stack = append(stack, p)
		}
	}
	for len(stack) > 0 {
		b := stack[len(stack)-1]
		stack = stack[:len(stack)-1]
		for _, p := range b.Preds {
			if !in[p] {
				in[p] = true
				stack = append(stack, p)
			}
		}
	}
	var out []*ssa.BasicBlock
	for _, b := range tr.fn.Blocks {
		if in[b] {
			out = append(out, b)
		}
	}
	return out
}

// topo returns blocks in an order where every non-back-edge predecessor comes first.
func (tr *FnTrans) topo() []*ssa.BasicBlock {
	fn := tr.fn
	indeg := map[*ssa.BasicBlock]int{}
	reach := map[*ssa.BasicBlock]bool{}
	var dfs func(b *ssa.BasicBlock)
	dfs = func(b *ssa.BasicBlock) {
		if reach[b] {
			return
		}
		reach[b] = true
		for _, s := range b.Succs {
			dfs(s)
		}
	}
	dfs(fn.Blocks[0])
	for _, b := range fn.Blocks {
		if !reach[b] {
			continue
		}
		for _, s := range b.Succs {
			if !tr.backEdge[[2]int{b.Index, s.Index}] {
				indeg[s]++
			}
		}
	}
	var order []*ssa.BasicBlock
	var ready []*ssa.BasicBlock
	ready = append(ready, fn.Blocks[0])
	for len(ready) > 0 {
		// pick lowest index for determinism
		sort.Slice(ready, func(i, j int) bool { return ready[i].Index < ready[j].Index })
		b := ready[0]
		ready = ready[1:]
		order = append(order, b)
		for _, s := range b.Succs {
			if tr.backEdge[[2]int{b.Index, s.Index}] {
				continue
			}
			indeg[s]--
			if indeg[s] == 0 {
				ready = append(ready, s)
			}
		}
	}
	return order
}

// ifaceAxioms states, for every interface type tested by a type assertion and every concrete
// dynamic type known in this function, whether the type implements the interface.
func (tr *FnTrans) ifaceAxioms() []string {
	var out []string
	var names []string
	for n := range tr.ifaceTests {
		names = append(names, n)
	}
	sort.Strings(names)
	for _, n := range names {
		it, ok := tr.ifaceTests[n].Underlying().(*types.Interface)
		if !ok {
			continue
		}
		for _, ct := range tr.smt.tagTypes {
			impl := types.Implements(ct, it)
			out = append(out, fmt.Sprintf("(assert (= (%s %d) %v))", n, tr.smt.typeTag(ct), impl))
		}
	}
	return out
}

// capturedByRef: the free variable holds the address of a variable of the enclosing function (Go
// closures capture variables, not values; go/ssa passes the value only when the variable is never
// reassigned).
func capturedByRef(fv *ssa.FreeVar) bool {
	fn := fv.Parent()
	if fn == nil || fn.Parent() == nil {
		return false
	}
	idx := -1
	for i, f := range fn.FreeVars {
		if f == fv {
			idx = i
		}
	}
	if idx < 0 {
		return false
	}
	for _, b := range fn.Parent().Blocks {
		for _, in := range b.Instrs {
			mc, ok := in.(*ssa.MakeClosure)
			if !ok || mc.Fn != fn || idx >= len(mc.Bindings) {
				continue
			}
			switch bv := mc.Bindings[idx].(type) {
			case *ssa.Alloc:
				return true
			case *ssa.FreeVar:
				return capturedByRef(bv)
			}
			return false
		}
	}
	return false
}

// immutableCapture: the captured variable is assigned only before the function literal is created
// (in the enclosing function, at a point that dominates the literal) and never through any literal
// that captures it, and its address is used for nothing else. Its value is then constant for the
// whole life of the literal, whatever runs concurrently.
func immutableCapture(fv *ssa.FreeVar) bool {
	fn := fv.Parent()
	idx := -1
	for i, f := range fn.FreeVars {
		if f == fv {
			idx = i
		}
	}
	if idx < 0 || fn.Parent() == nil {
		return false
	}
	var mc *ssa.MakeClosure
	for _, b := range fn.Parent().Blocks {
		for _, in := range b.Instrs {
			if m, ok := in.(*ssa.MakeClosure); ok && m.Fn == fn {
				mc = m
			}
		}
	}
	if mc == nil || idx >= len(mc.Bindings) {
		return false
	}
	al, ok := mc.Bindings[idx].(*ssa.Alloc)
	if !ok {
		return false
	}
	pos := func(in ssa.Instruction) int {
		for i, x := range in.Block().Instrs {
			if x == in {
				return i
			}
		}
		return -1
	}
	for _, ref := range *al.Referrers() {
		switch r := ref.(type) {
		case *ssa.Store:
			if r.Addr != al {
				return false // the address itself is stored somewhere
			}
			if r.Block() == mc.Block() {
				if pos(r) > pos(mc) {
					return false
				}
			} else if !r.Block().Dominates(mc.Block()) {
				return false
			}
		case *ssa.UnOp:
			if r.Op != token.MUL {
				return false
			}
		case *ssa.DebugRef, *ssa.FieldAddr:
		case *ssa.MakeClosure:
			cf, ok := r.Fn.(*ssa.Function)
			if !ok {
				return false
			}
			for i, b := range r.Bindings {
				if b != al || i >= len(cf.FreeVars) {
					continue
				}
				for _, fr := range *cf.FreeVars[i].Referrers() {
					switch x := fr.(type) {
					case *ssa.Store:
						if x.Addr == cf.FreeVars[i] {
							return false
						}
					case *ssa.UnOp, *ssa.DebugRef, *ssa.FieldAddr:
					default:
						return false
					}
				}
			}
		default:
			return false
		}
	}
	return true
}

// stableFld: one field of one object that is assigned only where the object is created.
type stableFld struct {
	addr  string
	ty    types.Type
	owner types.Type
	field string
	src   string
}

type onlyCheck struct {
	sd    SiteDecl
	probs []string
}

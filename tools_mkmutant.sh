#!/bin/sh
# usage: tools_mkmutant.sh <name> <repo-relative-file> <python-expr-old> <python-expr-new>
# creates selftest/mutants/<name>.patch replacing the first occurrence of old by new (must be unique)
name=$1; file=$2; old=$3; new=$4
python3 - "$name" "$file" "$old" "$new" <<'PY'
import sys,subprocess,os,tempfile,shutil
name,file,old,new=sys.argv[1:5]
src=open('/repo/'+file).read()
if src.count(old)!=1:
    print("pattern occurs",src.count(old),"times in",file); sys.exit(1)
d=tempfile.mkdtemp()
os.makedirs(os.path.join(d,'a',os.path.dirname(file)),exist_ok=True)
os.makedirs(os.path.join(d,'b',os.path.dirname(file)),exist_ok=True)
open(os.path.join(d,'a',file),'w').write(src)
open(os.path.join(d,'b',file),'w').write(src.replace(old,new))
p=subprocess.run(['diff','-u','a/'+file,'b/'+file],cwd=d,capture_output=True,text=True).stdout
open('/verif/selftest/mutants/'+name+'.patch','w').write(p)
shutil.rmtree(d)
print("wrote",name)
PY

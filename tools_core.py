#!/usr/bin/env python3
"""usage: tools_core.py <property> <func-substr> <obligation-substr> : prints the unsat core of an obligation (origins of the assumptions involved)"""
import sys,subprocess,re,glob,os,shutil
prop,func,sub=sys.argv[1:4]
out=subprocess.run(['/verif/bin/govc','check','--property',prop,'--no-evidence','--no-replay','--func',func,'--dump',sub],capture_output=True,text=True).stdout
d=re.search(r'work dir: (\S+)',out).group(1)
fs=[f for f in glob.glob(d+'/*.smt2') if sub in os.path.basename(f)]
f=fs[0]
lines=open(f).read().split('\n')
res=[];names={};k=0
for l in lines:
    if l.startswith('(assert ') and ';' in l:
        body,comment=l.rsplit(';',1); body=body.strip(); inner=body[len('(assert '):-1]; k+=1
        res.append('(assert (! %s :named a%d))'%(inner,k)); names['a%d'%k]=comment.strip()
    elif l.startswith('(assert '):
        k+=1; inner=l.strip()[len('(assert '):-1]
        res.append('(assert (! %s :named a%d))'%(inner,k)); names['a%d'%k]='GOAL/GUARD '+inner[:100]
    elif l.startswith('(check-sat)'):
        res.append('(check-sat)\n(get-unsat-core)')
    elif l.startswith('(get-value'): pass
    else: res.append(l)
open('/tmp/core.smt2','w').write('(set-option :produce-unsat-cores true)\n'+'\n'.join(res))
r=subprocess.run(['z3-new','-T:60','/tmp/core.smt2'],capture_output=True,text=True).stdout
print(os.path.basename(f)); print(r[:300])
for n in re.findall(r'\ba\d+\b',r): print(n, names.get(n,'')[:220])
shutil.rmtree(d); os.remove('/tmp/core.smt2')

#!/usr/bin/env python3
"""Regenerates /verif/MANIFEST.json from the table below (run after adding a property check)."""
import json, subprocess

HOOK_COMMITS = subprocess.run(
    ["git", "-C", "/repo", "log", "--format=%h", "--grep=^verif:"], capture_output=True, text=True
).stdout.split()

TECH = "contract-based deductive verification: VCs generated over go/ssa from the real functions, discharged by z3/cvc5"

# property -> (level text, level note)   for claimed properties
CLAIMED = {
    "C07": (
        "Deductive proof, for all int64 start/end/max and both alignment settings, that the range computation of get-entries meets the postconditions taken from the property statement (non-empty, begins at start, ends no later than end, at most max, alignment only shortens), plus no-panic obligations; every obligation is generated from the current source and discharged by an SMT solver.",
        "Trusted: go/ssa lowering, govc translation, solver soundness, assumed contract of strconv.ParseInt; callees without contract abstracted (unconstrained results). Not decided here: that decoding a served entry inverts the encoder (reflective codec).",
    ),
}

CLAIMED["C08"] = (
    "Deductive proof, per endpoint handler and helper of the CT front end, of the contracts taken from the property statement: the gRPC-code to HTTP-status table (every code), no 200 when the backend returned an error, status 200 only after every sanity check on the reply passed (root decodes, tree large enough, proof/leaf present, hashes 32 bytes, leaves contiguous and not surplus), parameter errors are 400 without a backend call, wrong method is 405 without calling the handler, masking of internal error text, plus a no-panic obligation at every dereference/index/slice/type assertion in those functions. Obligations are generated from the current source for all inputs and discharged by SMT.",
    "Trusted: go/ssa lowering, govc translation, solvers; assumed contracts of the gRPC stubs (nil error => non-nil reply; elements of repeated fields non-nil; a non-nil error has a non-OK code), net/http, json; logInfo is immutable after construction (checked syntactically: frame:stable). Not decided: what net/http does with a half-written body; add-chain handler internals are claimed under C01 only when discharged.",
)


COMMON_TRUST = "Trusted: go/types+go/ssa lowering, the govc SSA->SMT translation (guarded by satisfiable-path covers and a must-fail mutant corpus), solver soundness, the assumed contracts listed per run in evidence.trusted_base (standard library, gRPC stubs, reflective codecs, crypto), and the purity of logging/metrics callees. Callees without contract are abstracted (unconstrained results, reachable memory havocked). Concurrency and termination are not reasoned about."

CLAIMED["C01"] = (
    "Deductive proof of the add-chain data flow: the entry handed to the backend is built from the validated chain with the endpoint's entry type and the clock reading in milliseconds; the leaf queued is the one built from that entry (TLS encoding, identity hash = SHA-256 of the submitted leaf certificate, extra data = whole validated chain); the SCT is built from the leaf the backend RETURNED (duplicate submissions repeat the stored timestamp), signed over the RFC 6962 signature input of that leaf (field by field), carries SHA-256 of the DER SubjectPublicKeyInfo of the log key as log ID, and IssueSCT / 200 happen only after all of it succeeded. Precertificate entries: issuer key hash of the final issuer and de-poisoned TBS also with a pre-issuer.",
    COMMON_TRUST + " Not decided here: that the signature verifies (cryptography) and byte-exactness of the reflective TLS/ASN.1 encoders.",
)
CLAIMED["C02"] = (
    "Deductive proof of the chain admission control flow: every submitted certificate is parsed in order, the leaf filters (NotAfter window start <= t < limit over abstract instants, expired/unexpired rejection, CA-only) are established before Verify is called on the submitted leaf with the documented option set, an admitted path is one of Verify's results that passes the order check; the order check is pointwise certificate equality with the same or one extra (root) element; precertificate detection is exactly 'first poison extension is critical with ASN.1 NULL', malformed poison is always an error, and the leaf kind must match the endpoint.",
    COMMON_TRUST + " Assumed: x509.Certificate.Verify (path building, signatures: cryptography and recursion over pools). Not proved in this revision: the forbidden-extension and required-EKU filter clauses (map-heavy loops).",
)
CLAIMED["C03"] = (
    "Deductive proof of the TBSCertificate rewriting: removeExtension succeeds only with exactly one matching extension (absent and duplicate are errors), removes that one keeping all others in order and every other field, and clears Raw so the structure is re-encoded; BuildPrecertTBS replaces the issuer name only with a pre-issuer and treats the authority key identifier by the four-way case analysis (replaced in place keeping id and criticality / removed / appended / untouched); the precertificate route and the embedded-SCT route build the same leaf shape from the resulting TBS bytes and the final issuer's key hash.",
    COMMON_TRUST + " Not decided here: that asn1.Marshal(asn1.Unmarshal(d)) preserves every other DER byte (reflective encoder) and the SCT-list extension codec (not yet under contract).",
)
CLAIMED["C04"] = (
    "Deductive proof, for the non-reflective serialisation code, that the structures handed to the TLS encoder carry exactly the RFC 6962 fields: SCT signature input (version, signature type 0, timestamp, entry type, variant, extensions of the SCT), STH signature input (version, signature type 1, timestamp, tree size, root hash), leaf hash input (0x00 prefix then the leaf encoding), unknown versions/types refused; plus the numeric layer of the TLS codec (byte counts, bounds checks, big-endian fixed-width decoding at the current offset).",
    COMMON_TRUST + " Not decided here: composition of the per-field encodings by the reflective struct walker, JSON/base64 conversions, the static layout table of DESIGN section 4 (not built in this revision).",
)
CLAIMED["C06"] = (
    "Deductive proof that the front end adds nothing and swaps nothing: the STH served reports the backend root's size, hash and millisecond timestamp and is signed (or served from a cache keyed by the exact signed bytes); consistency and inclusion requests carry first/second, hash and tree size unswapped and the proofs relayed are the backend's (first proof, 32-byte hashes); get-entry-and-proof relays leaf and proof bytes; the SCT of a duplicate submission is built from the stored leaf; frozen and mirror getters serve only their STH.",
    COMMON_TRUST + " Not decided here: every clause over histories and schedules (append-only, linked STHs, single index): these are properties of the Trillian backend and of time. Client side (client/logclient.go) not yet under contract.",
)
CLAIMED["C09"] = (
    "Deductive proof for the TLS presentation decoder: the whole recursive decoder stays inside its input (offsets between initOffset and len(data) at every return, every index and slice in bounds, allocations no larger than the remaining input), each fixed-width arm reads big-endian at the current offset and consumes its width, enum and length prefixes go through the same bounds check, which accepts exactly the values that fit the declared width (1..8 bytes) and the declared min/max; tag parsing yields sizes in 1..8.",
    COMMON_TRUST + " Assumed: reflect implements Go's type/value semantics. Not decided here: the induction over all type shapes (bijection for arbitrary nested types) and the encoder side (marshalField) which is not yet under contract.",
)
CLAIMED["C11"] = (
    "Deductive proof of error coherence of the lenient X.509 certificate parser: every return of ParseCertificate and parseCertificate is (object, nil | NonFatalErrors) or (nil, fatal-class error); IsFatal classifies nil and NonFatalErrors as non-fatal and everything else as fatal; a strict-decode failure rescued by the lax retry is recorded, the lax retry runs on the same input and target; trailing data is fatal; a SAN extension with any parsed name is not reported as unhandled.",
    COMMON_TRUST + " Trusted (contract without verified body): forEachSAN and the getValues closure (higher-order helpers). Not decided here: totality (no-panic) of the helper parsers, field-level agreement with crypto/x509, ParseCertificates/CRL/CSR/key parsers (not yet under contract).",
)
CLAIMED["C13"] = (
    "Deductive proof of the retry policy per attempt: success is returned only for a 200 POST response whose body parsed (a response whose request method is no longer POST is an error); transport/parse errors back off without override; 408 retries without touching the back-off; 429/503 hand the server's Retry-After (seconds, exactly, saturated at the largest representable duration; or HTTP date) to the back-off; every other status is returned at once with status and body; context errors are returned, not retried. Back-off object: multiplier capped at 8, wait = 1s<<(m-1) <= 128 s, notBefore never earlier than a clock reading of the call plus the server's Retry-After, never extended without a server request; jitter < 250 ms.",
    COMMON_TRUST + " Instants are abstract (monotonic clock reading and Location ignored; time.Now readings non-decreasing). Not decided here: wall-clock promptness, concurrent submissions sharing the back-off, liveness.",
)
CLAIMED["C14"] = (
    "Deductive proof for the external issuance-chain store: add returns the SHA-256 of exactly the chain bytes and stores them unless cached, errors give no hash; getByHash returns the cache answer as is or else the storage answer, propagating errors; the indirect leaf builder embeds the hash of the marshalled chain after the leaf; FixLogLeaf tries the two hash layouts then the two full-chain layouts on the stored bytes, re-inflates from the looked-up chain (no trailing data, decode errors returned), leaves extra_data untouched on every error path and for full-chain layouts, errors on unknown layouts, and writes nothing but leaf.ExtraData; lemma: no byte string is both a full-chain and a hash layout.",
    COMMON_TRUST + " Assumed: storage FindByKey returns what was Added, cache Get returns nil or what was Set; TLS/ASN.1 codecs. Not decided here: interleavings with the detached cache-fill goroutine, expiry/eviction timing, the generic LRU wrapper.",
)


CLAIMED["C18"] = (
    "Deductive proof, over abstract instants, that all three components use the same window predicate start <= t < limit with optional bounds: the log server reaches chain verification only when the leaf's NotAfter is inside the configured window (and refuses otherwise); the temporal client routes an instant to the first shard whose window contains it and errors exactly when none does; the log-list filter keeps a log exactly when it has no interval or its interval contains NotAfter; shard lists are refused unless every shard is non-inverted and each shard starts exactly where the previous one ended (only the last may be unbounded), and a certificate is submitted to the shard chosen by its NotAfter.",
    COMMON_TRUST + " time.Time is modelled as an instant (monotonic reading and Location ignored); timestamppb.AsTime/CheckValid are assumed. Not proved in this revision: the exactly-one-shard lemma by induction over the shard list (the router returns the first containing shard).",
)

CLAIMED["C12"] = (
    "Deductive proof per client method that nothing is returned without the verification the property names: GetSTH returns only an STH that ToSignedTreeHead decoded completely (32-byte root hash, no trailing signature bytes) and that VerifySTHSignature accepted; addChainWithRetry returns only an SCT whose DigitallySigned decoded completely, whose extensions decoded, and that VerifySCTSignature accepted for the leaf rebuilt from the submitted chain, entry type and the SCT's timestamp and extensions; GetAndParse/PostAndParse succeed only on 200 with a decoded body and wrap later failures in RspError with status and body; every other method passes the transport error on with a nil result; RawLogEntryFromLeaf/ToLogEntry/LogEntryFromLeaf are total (no panic) on arbitrary leaf_input/extra_data, reject trailing bytes and unknown entry types, and return entries whose certificate and chain are exactly the decoded fields; a client is given a verifier exactly when a key is configured, and only for compliant keys. One open finding (F9, KNOWN_FINDINGS.txt): the SCT log ID is never compared with the hash of the configured key.",
    COMMON_TRUST + " The reflective TLS decoder is represented by assumed postconditions (decoded MerkleTreeLeaf: selected variant pointers set); encoding/json, base64, net/http and ctxhttp.Do are assumed to write only through the destination they are given; x509.ParsePKIXPublicKey is assumed to return a well-formed key. TemporalLogClient.GetAcceptedRoots (goroutines, channel) is outside the generator's subset and not covered. Cryptographic validity of an accepted signature is C05's subject.",
)

CLAIMED["C05"] = (
    "Deductive proof that tls.VerifySignature passes exactly when the primitive for the declared signature algorithm accepts (rsa.VerifyPKCS1v15; dsa.Verify / ecdsa.Verify on a DER pair that decoded and whose r and s are both positive) for the given key, over the digest of exactly the given data under the crypto hash selected by the declared hash code (only the six TLS hashes), and that a key type not matching the declared algorithm, an unknown algorithm or an unsupported hash is an error before any primitive is called; the SCT and STH verifiers pass exactly when that holds over the RFC 6962 signature input of the object (serialisers proved in C04); NewSignatureVerifier returns a verifier holding exactly the given key, refuses RSA below 2048 bits and ECDSA off P-256 unless AllowVerificationWithNonCompliantKeys was set, and refuses every other key type; NewFromSignedJSON parses nothing unless the SHA-256 signature with the key type's algorithm verifies over exactly the list bytes; ctutil.VerifySCT(WithVerifier) verify the leaf built from the chain at the SCT timestamp.",
    COMMON_TRUST + " The cryptographic primitives (crypto/rsa, crypto/dsa, crypto/ecdsa, hash.Hash) are external: their calls appear as sites whose arguments are proved and whose verdict is taken as the definition of 'cryptographically valid'; crypto.Hash.New is assumed non-nil (all six hashes are linked in by blank imports); after a successful asn1.Unmarshal into dsaSig both integers are assumed non-nil; keys are assumed well-formed objects (validKey: typed-nil key pointers are excluded by precondition). Bit-level mutation statements of the property follow from the primitives' behaviour, which is not modelled.",
)

CLAIMED["C15"] = (
    "Deductive proof that the validators are total (every index and nil-dereference obligation of ValidateLogConfig, BuildLogBackendMap, validateConfigs, ValidateLogConfigs and ValidateLogMultiConfig is discharged for every message whose repeated elements are non-nil, including absent sections) and accept exactly the well-formed configurations: one postcondition per rule of the statement in both directions for a single log (log ID, key presence by log kind, parseable keys, not rejecting everything, only known EKU names, valid and ordered NotAfter window over abstract instants, non-negative ordered merge delays, frozen STH verified under the public key, usable connection string for the CTFE store), and by loop invariants over the maps for the sets (non-empty pairwise-distinct backend names and specs, non-empty pairwise-distinct prefixes, pairwise-distinct tree IDs, every log naming a defined backend; the converse 'a rejected set violates a rule' is proved for backends, prefixes and single-server tree IDs). Instance: Handlers() exposes add-chain and add-pre-chain exactly when the log is neither read-only nor a mirror and always the six read endpoints bound to this log with their methods; newLogInfo gives a frozen log the getter that returns only its frozen STH, a mirror the getter whose result is bounded by the backend tree size, and wires options unchanged; setUpLogInfo requires roots for non-mirrors, a private key consistent with a configured public key, and builds the chain-validation options from the validated configuration.",
    COMMON_TRUST + " Key, DSN, timestamp and protobuf parsers are external (their verdicts appear as call-site results); MirrorSTHStorage.GetMirrorSTH is assumed to honour its documented bound; the per-backend tree-ID rule of ValidateLogMultiConfig is decided only up to the fmt.Sprintf key (string formatting is not modelled: names ending in '-' with negative IDs can collide); metric variables are assumed initialised by setupMetrics; text/binary protobuf decoding itself is not covered.",
)

CLAIMED["C19"] = (
    "Deductive proof, per update step, of the witness's acceptance rule: setSTH is called only after parse accepted the candidate (its JSON decoded, its log ID equals the requested one or was absent, and VerifySTHSignature under the key configured for that log returned nil), and then only either as the first STH when the store reported NotFound, or when the held STH re-verified, the candidate is strictly larger and proof.VerifyConsistency over (held size, candidate size, the given proof, held root, candidate root) returned nil; the bytes stored are exactly the verified candidate for that log in the transaction opened for this update and count as stored only if Exec and Commit succeeded. Stale, forked-at-equal-size and inconsistent candidates, unknown logs and unreadable state store nothing and are answered as the statement says (held bytes with FailedPrecondition / NotFound / error); an identical STH is a no-op. Every cosignature is tls.CreateSignature with the witness key and SHA-256 over the TLS encoding of exactly the STH placed next to it. The history clause (never shrinking, each a genuine extension) follows by induction over steps from these per-step postconditions.",
    COMMON_TRUST + " database/sql is external: transaction isolation (what makes the step atomic under concurrent Update calls) is assumed, as is that a later read returns the last committed bytes; proof.VerifyConsistency is taken as the definition of 'genuine extension'; signature validity is C05's subject; interleavings of concurrent callers are not modelled.",
)

CLAIMED["C16"] = (
    "Deductive proof of the sequential core of every component of the scan, each as its own unit (function literals included): the range generator sends only non-empty ranges of at most one batch, each starting exactly where the previous one ended, the first at StartIndex, none reaching past the current end, and it waits for a strictly bigger tree exactly when the cursor has reached the end (continuous mode), so the ranges tile [StartIndex, EndIndex) without gap or repeat; a fetch worker asks, per range, for exactly the undelivered part [cursor, end], hands each reply to the callback as the batch starting at the cursor with exactly the entries received, and advances the cursor by exactly that many, leaving the range only with the cursor just past its end (for logs returning between one and the number of entries asked for); Prepare clamps EndIndex to the tree size; the scanner's flattening step gives entry i of a batch the index Start+i in order; each matcher worker processes exactly the entry it received; and for an entry the matcher selects exactly one of the certificate / precertificate callbacks is called, at one call site outside any loop, with the raw entry decoded from that index and leaf. The statement's 'exactly once' then follows by composing these per-unit facts under Go's channel semantics (each message is received by exactly one worker).",
    COMMON_TRUST + " Not decided here, by the nature of the technique: goroutine interleavings, termination, Stop/cancellation timing, the back-off's real-time behaviour and data races (the per-unit proofs assume that state shared between goroutines is only what the contracts name: the Fetcher's client field never changes, captured variables are assigned only before the literal is created — both checked syntactically). Assumed: the log client's replies carry between one and the requested number of entries and tree sizes fit an int64; backoff.Retry returns nil exactly when the last call of the function it was given returned nil; a matcher may modify the leaf it is shown (the callback receives what was decoded after matching).",
)

CLAIMED["C20"] = (
    "Deductive proof of the sequential core of the migration: a destination leaf is the source entry's leaf_input and extra_data verbatim under the source index with the identity hash the configured function gives (SHA-256 of the certificate bytes, or of the little-endian index), and only an undecodable leaf is refused (unparsable certificates are copied); a batch becomes one AddSequencedLeaves request for this tree whose k-th leaf is the k-th entry under index Start+k; a ResourceExhausted reply asks backoff.Retry for another attempt (the retry sentinel is proved retryable on the package initializer) and is never handed back while the context lives, any other failure is returned; a submitter submits exactly the batch it received and takes the next one only after this one was accepted; the fetcher's callback forwards batches unchanged; fetchTail fetches nothing when the source has nothing new and starts the fetch only after verifyConsistency returned nil, which for a non-empty destination root happens only when the source's consistency proof between the destination size/root and the just-fetched STH verifies (unless the operator switched the check off); getRoot and NewPreorderedLogClient bind size, root and tree to the backend's reply and the configured tree. Together with C16 (ranges and batches tile the source range) this gives index-for-index equality of destination and source.",
    COMMON_TRUST + " Not decided here: goroutine interleavings of fetchers and submitters, restarts and mastership changes (whole-history clauses), termination, and the Trillian backend's own idempotence for re-submitted leaves; proof.VerifyConsistency, backoff.Retry and the gRPC stubs are assumed as documented (Retry: returns f's error unless it is retryable); start indices configured beyond the destination size are the operator's choice and are not excluded.",
)

CLAIMED["C17"] = (
    "Deductive proof of the step-level rules the statement rests on, each on the real function: the policy minima (Chrome: one Google-operated and one non-Google-operated SCT plus 2/3/4/5 in total for lifetimes below 15 / up to 27 / up to 39 / more months; Apple: the same totals) with the lifetime in whole months computed from NotBefore and NotAfter, and an error exactly when a group cannot reach its minimum; request() answers true at most for the first request of a log, leaves a non-nil entry behind and refuses every later request for that log unchanged, so with the per-log goroutine proved to call SubmitToLog only after request() answered true, never for a complete group, and to report exactly that log's answer, no log is sent the chain twice; a failed submission records the error and changes no group's need; groupComplete is 'no SCT still needed'; every SCT handed back is a recorded SCT of the log it is attributed to (one map entry per log); the root filter keeps a log exactly when its accepted roots are unknown or include the chain's root, and the temporal filter is C18's. NOT decided by this check: the accounting clause itself (on success every policy group has its required number of SCTs among those returned) is an invariant over the whole history of setResult calls with set cardinalities and map iteration, which no contract within reach expresses; nor liveness, cancellation and data races.",
    COMMON_TRUST + " setResult's SCT branch, GroupByLogs, populate and Compatible's composition are not under verified contracts (maps of maps / nested iteration); the Submitter is assumed not to touch the submission state; goroutine interleavings are not modelled (the state machine's methods are proved as sequential critical sections under their mutex).",
)

CLAIMED["C10"] = (
    "Deductive proof, for all byte strings, of the DER leaf decoders of the fork against X.690: BOOLEAN (one octet, 00 or FF), INTEGER (accepted exactly when non-empty and minimal, or lax; at most eight octets for int64, value is the sign-extended big-endian reading, int32 exactly when it fits), BIT STRING (padding count below eight, none without content, padding bits zero), base-128 integers (one to five octets delimited by the continuation bit, below 2^31, never a leading 0x80), OBJECT IDENTIFIER (first arc pair unpacked from the first integer, empty content only in lax mode), identifier and length octets (class, constructed bit, low tags inline and high tags minimal and at least 31; definite lengths below 2^31, short form is the octet itself, long form only for 128 and more without leading zero), the PrintableString alphabet and the two guessing predicates; lax mode is proved to add acceptances only of the documented kinds (non-minimal integers, empty OIDs, PrintableString contents that read as ISO 8859-1 or T.61) and, in the reflective walker itself, every leaf decoder, every struct field and every sequence element is proved to be handed the lax flag of the enclosing field; parseField and parseSequenceOf consume a prefix of the input and UnmarshalWithParams returns no remainder on failure; the encoders' INTEGER, length and base-128 lengths are proved to be the least that fit. One strictness difference to encoding/asn1 of the installed toolchain was found by the 'never a leading 0x80' clause and repaired (F10).",
    COMMON_TRUST + " Not decided here: what the reflective walker stores for every Go target type (reflection is outside the memory model; it is verified only for panics of its own index arithmetic being excluded by `may panic`, offsets and flag propagation), time and string conversions (time.Parse, utf8, big.Int are external), the byte-for-byte re-marshalling clause beyond the length functions, and a mechanical comparison of every leaf with the GOROOT sources (the contracts are written from X.690, which is also what encoding/asn1 implements; only the base-128 difference was replayed against encoding/asn1).",
)

NOT_YET = "contracts for this property are not yet discharged by the generator in this revision; no other technique is substituted"
NOT_APPLICABLE = {}

ids = [json.loads(l)["id"] for l in open("/verif/properties.jsonl")]
checks = []
na = []
for pid in ids:
    if pid in CLAIMED:
        text, note = CLAIMED[pid]
        checks.append({
            "property_id": pid,
            "quick_cmd": f"/verif/check {pid} quick",
            "thorough_cmd": f"/verif/check {pid} thorough",
            "evidence_file": f"/verif/evidence/{pid}.json",
            "replay_cmd_template": "cat {path}",
            "engine": "govc",
            "level_claimed": {"category": "proof", "text": text, "design_ref": f"DESIGN.md section 4 {pid}"},
            "level_note": note,
            "technique": TECH,
        })
    else:
        na.append({"property_id": pid, "reason": NOT_APPLICABLE.get(pid, NOT_YET)})

manifest = {
    "version": 1,
    "setup_cmd": "cd /verif/engine && GOFLAGS=-mod=mod GOPROXY=off GOSUMDB=off GOTOOLCHAIN=local go build -o /verif/bin/govc ./cmd/govc",
    "hooks": {
        "guard": "verif",
        "enable": "Go build tag 'verif': the comment-only contract files <pkg>/contracts_verif.go are read by govc with -tags=verif; they contain no executable code",
        "baseline_off_cmd": "for m in $(cat /w/out/gomods.txt); do MF=$(cd /repo/$m && . /w/out/goenv.sh && gomodflag); (cd /repo/$m && go test $MF -json -vet=off -count=1 -timeout 25m ./...); done",
        "source_commits": HOOK_COMMITS,
        "add_only": True,
    },
    "engines": [{
        "name": "govc",
        "path": "/verif/engine",
        "serves_properties": sorted(CLAIMED),
        "kind_free_text": "verification-condition generator over go/ssa (x/tools v0.29.0) for the real functions in /repo; contracts in comment-only files behind build tag verif; obligations discharged by z3 5.1 / cvc5 1.0 / z3 4.8; counterexamples replayed on the real code with go test -overlay",
    }],
    "checks": checks,
    "not_applicable": na,
    "notes": "exit 0: every obligation discharged (or listed open finding); exit 1 + VIOLATION line: a named obligation failed; exit 2: the machinery itself is broken (vacuous contract, unsupported construct, solver missing).",
}
json.dump(manifest, open("/verif/MANIFEST.json", "w"), indent=1)
print("claimed:", sorted(CLAIMED), "not claimed:", len(na))

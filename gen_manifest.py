#!/usr/bin/env python3
"""Regenerates /verif/MANIFEST.json from the table below (run after adding a property check)."""
import json, subprocess

HOOK_COMMITS = subprocess.run(
    ["git", "-C", "/repo", "log", "--format=%h", "--grep=^verif:"], capture_output=True, text=True
).stdout.split()

TECH = "contract-based deductive verification: VCs generated over go/ssa from the real functions, discharged by z3/cvc5"

# property -> (level text, level note)   for claimed properties
CLAIMED = {
    "C07": (
        "Deductive proof, for all int64 start/end/max and both alignment settings, that the range computation of get-entries meets the postconditions taken from the property statement (non-empty, begins at start, ends no later than end, at most max, alignment only shortens), plus no-panic obligations; every obligation is generated from the current source and discharged by an SMT solver.",
        "Trusted: go/ssa lowering, govc translation, solver soundness, assumed contract of strconv.ParseInt; callees without contract abstracted (unconstrained results). Not decided here: that decoding a served entry inverts the encoder (reflective codec).",
    ),
}

CLAIMED["C08"] = (
    "Deductive proof, per endpoint handler and helper of the CT front end, of the contracts taken from the property statement: the gRPC-code to HTTP-status table (every code), no 200 when the backend returned an error, status 200 only after every sanity check on the reply passed (root decodes, tree large enough, proof/leaf present, hashes 32 bytes, leaves contiguous and not surplus), parameter errors are 400 without a backend call, wrong method is 405 without calling the handler, masking of internal error text, plus a no-panic obligation at every dereference/index/slice/type assertion in those functions. Obligations are generated from the current source for all inputs and discharged by SMT.",
    "Trusted: go/ssa lowering, govc translation, solvers; assumed contracts of the gRPC stubs (nil error => non-nil reply; elements of repeated fields non-nil; a non-nil error has a non-OK code), net/http, json; logInfo is immutable after construction (checked syntactically: frame:stable). Not decided: what net/http does with a half-written body; add-chain handler internals are claimed under C01 only when discharged.",
)

NOT_YET = "contracts for this property are not yet discharged by the generator in this revision; no other technique is substituted"
NOT_APPLICABLE = {}

ids = [json.loads(l)["id"] for l in open("/verif/properties.jsonl")]
checks = []
na = []
for pid in ids:
    if pid in CLAIMED:
        text, note = CLAIMED[pid]
        checks.append({
            "property_id": pid,
            "quick_cmd": f"/verif/check {pid} quick",
            "thorough_cmd": f"/verif/check {pid} thorough",
            "evidence_file": f"/verif/evidence/{pid}.json",
            "replay_cmd_template": "cat {path}",
            "engine": "govc",
            "level_claimed": {"category": "proof", "text": text, "design_ref": f"DESIGN.md section 4 {pid}"},
            "level_note": note,
            "technique": TECH,
        })
    else:
        na.append({"property_id": pid, "reason": NOT_APPLICABLE.get(pid, NOT_YET)})

manifest = {
    "version": 1,
    "setup_cmd": "cd /verif/engine && GOFLAGS=-mod=mod GOPROXY=off GOSUMDB=off GOTOOLCHAIN=local go build -o /verif/bin/govc ./cmd/govc",
    "hooks": {
        "guard": "verif",
        "enable": "Go build tag 'verif': the comment-only contract files <pkg>/contracts_verif.go are read by govc with -tags=verif; they contain no executable code",
        "baseline_off_cmd": "for m in $(cat /w/out/gomods.txt); do MF=$(cd /repo/$m && . /w/out/goenv.sh && gomodflag); (cd /repo/$m && go test $MF -json -vet=off -count=1 -timeout 25m ./...); done",
        "source_commits": HOOK_COMMITS,
        "add_only": True,
    },
    "engines": [{
        "name": "govc",
        "path": "/verif/engine",
        "serves_properties": sorted(CLAIMED),
        "kind_free_text": "verification-condition generator over go/ssa (x/tools v0.29.0) for the real functions in /repo; contracts in comment-only files behind build tag verif; obligations discharged by z3 5.1 / cvc5 1.0 / z3 4.8; counterexamples replayed on the real code with go test -overlay",
    }],
    "checks": checks,
    "not_applicable": na,
    "notes": "exit 0: every obligation discharged (or listed open finding); exit 1 + VIOLATION line: a named obligation failed; exit 2: the machinery itself is broken (vacuous contract, unsupported construct, solver missing).",
}
json.dump(manifest, open("/verif/MANIFEST.json", "w"), indent=1)
print("claimed:", sorted(CLAIMED), "not claimed:", len(na))

#!/bin/sh
# Replays finding F9 against the real code in /repo (expected: FAIL lines naming the accepted SCTs).
export GOFLAGS=-mod=mod GOPROXY=off GOSUMDB=off GOTOOLCHAIN=local
D=$(cd "$(dirname "$0")" && pwd)
T=$(mktemp -d)
printf '{"Replace":{"/repo/client/zz_f9_test.go":"%s/zz_f9_test.go"}}' "$D" > "$T/ov.json"
(cd /repo && go test -overlay "$T/ov.json" -vet=off -count=1 -timeout 60s -run TestF9ForeignLogID ./client/)
rc=$?
rm -rf "$T"
exit $rc

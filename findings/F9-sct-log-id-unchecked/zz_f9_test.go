package client_test

// Demonstration of open finding F9 (property C12): a LogClient configured with the log's public key
// returns an SCT whose log ID is not the SHA-256 of that key. The SCT signature input (RFC 6962 s3.2)
// does not cover the log ID, so the genuine testdata SCT re-labelled with a foreign ID (or none) verifies.
// Run with ./run.sh (go test -overlay; nothing is written to /repo).

import (
	"context"
	"encoding/base64"
	"fmt"
	"net/http"
	"net/http/httptest"
	"testing"

	ct "github.com/google/certificate-transparency-go"
	"github.com/google/certificate-transparency-go/client"
	"github.com/google/certificate-transparency-go/jsonclient"
	"github.com/google/certificate-transparency-go/testdata"
	"github.com/google/certificate-transparency-go/tls"
	"github.com/google/certificate-transparency-go/x509util"
)

func TestF9ForeignLogID(t *testing.T) {
	var good ct.SignedCertificateTimestamp
	if _, err := tls.Unmarshal(testdata.TestCertProof, &good); err != nil {
		t.Fatal(err)
	}
	sig, err := tls.Marshal(good.Signature)
	if err != nil {
		t.Fatal(err)
	}
	foreign := make([]byte, 32)
	for i := range foreign {
		foreign[i] = 0x41
	}
	for _, id := range [][]byte{foreign, nil, foreign[:5]} {
		body := fmt.Sprintf(`{"sct_version":0,"id":%q,"timestamp":%d,"extensions":"","signature":%q}`,
			base64.StdEncoding.EncodeToString(id), good.Timestamp, base64.StdEncoding.EncodeToString(sig))
		hs := httptest.NewServer(http.HandlerFunc(func(w http.ResponseWriter, _ *http.Request) { fmt.Fprint(w, body) }))
		lc, err := client.New(hs.URL, &http.Client{}, jsonclient.Options{PublicKey: testdata.LogPublicKeyPEM})
		if err != nil {
			t.Fatal(err)
		}
		cert, _ := x509util.CertificateFromPEM([]byte(testdata.TestCertPEM))
		sct, err := lc.AddChain(context.Background(), []ct.ASN1Cert{{Data: cert.Raw}})
		hs.Close()
		if err == nil {
			t.Errorf("reply id=%x: client with the log key accepted the SCT; returned LogID=%x, key hash=%x", id, sct.LogID.KeyID, good.LogID.KeyID)
		}
	}
}

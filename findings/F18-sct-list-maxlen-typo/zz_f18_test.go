package x509

import (
	"bytes"
	"testing"

	"github.com/google/certificate-transparency-go/tls"
)

// RFC 6962 section 3.3: SerializedSCT sct_list <1..2^16-1>. A list whose contents take 65400
// octets (one SerializedSCT of 65398 octets plus its two-octet length) is inside that range.
func TestF18SCTListUpTo65535(t *testing.T) {
	list := SignedCertificateTimestampList{SCTList: []SerializedSCT{{Val: bytes.Repeat([]byte{0x42}, 65398)}}}
	enc, err := tls.Marshal(list)
	if err != nil {
		t.Errorf("FAIL Marshal of a 65400-octet sct_list: %v", err)
	}
	wire := append([]byte{0xff, 0x78, 0xff, 0x76}, bytes.Repeat([]byte{0x42}, 65398)...) // 65400, then 65398
	var got SignedCertificateTimestampList
	rest, err := tls.Unmarshal(wire, &got)
	if err != nil {
		t.Errorf("FAIL Unmarshal of a 65400-octet sct_list: %v", err)
	} else if len(rest) != 0 || len(got.SCTList) != 1 || len(got.SCTList[0].Val) != 65398 {
		t.Errorf("FAIL decoded %d entries, %d bytes left", len(got.SCTList), len(rest))
	}
	if err == nil && enc != nil && !bytes.Equal(enc, wire) {
		t.Errorf("FAIL encoding differs from the RFC bytes")
	}
}

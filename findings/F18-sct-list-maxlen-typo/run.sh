#!/bin/sh
# Replays finding F18 against the real code in /repo (before the fix: two FAIL lines, "too large for maximum 65335").
export GOFLAGS=-mod=mod GOPROXY=off GOSUMDB=off GOTOOLCHAIN=local
D=$(cd "$(dirname "$0")" && pwd)
T=$(mktemp -d)
printf '{"Replace":{"/repo/x509/zz_f18_test.go":"%s/zz_f18_test.go"}}' "$D" > "$T/ov.json"
(cd /repo && go test -overlay "$T/ov.json" -vet=off -count=1 -timeout 60s -run TestF18SCTListUpTo65535 ./x509/)
rc=$?
rm -rf "$T"
exit $rc

package scanner

import (
	"context"
	"net/http"
	"net/http/httptest"
	"sync/atomic"
	"testing"

	ct "github.com/google/certificate-transparency-go"
	"github.com/google/certificate-transparency-go/client"
	"github.com/google/certificate-transparency-go/jsonclient"
)

// F21: a Scanner built from options without a Matcher is documented (NewScanner) to match
// everything. The default is stored into the constructor's local copy of the options after that
// copy was taken, so the Scanner keeps a nil matcher and no entry ever reaches a callback.
func TestF21ScannerDefaultMatcher(t *testing.T) {
	ts := httptest.NewServer(http.HandlerFunc(func(w http.ResponseWriter, r *http.Request) {
		switch r.URL.Path {
		case "/ct/v1/get-sth":
			_, _ = w.Write([]byte(FourEntrySTH))
		case "/ct/v1/get-entries":
			_, _ = w.Write([]byte(FourEntries))
		}
	}))
	defer ts.Close()
	logClient, err := client.New(ts.URL, &http.Client{}, jsonclient.Options{})
	if err != nil {
		t.Fatal(err)
	}
	opts := ScannerOptions{
		FetcherOptions: FetcherOptions{BatchSize: 10, ParallelFetch: 1},
		NumWorkers:     1,
	}
	var delivered int64
	count := func(*ct.RawLogEntry) { atomic.AddInt64(&delivered, 1) }
	if err := NewScanner(logClient, opts).Scan(context.Background(), count, count); err != nil {
		t.Fatal(err)
	}
	if got := atomic.LoadInt64(&delivered); got != 4 {
		t.Errorf("scan of a four-entry log with no matcher configured delivered %d entries, want 4 (match everything)", got)
	}
}

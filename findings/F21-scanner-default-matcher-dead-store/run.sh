#!/bin/bash
# Replays F21 on the real code through an overlay (nothing is written to /repo).
# exit 1 = the defect is present (a scanner without a configured matcher delivers nothing).
export GOFLAGS=-mod=mod GOPROXY=off GOSUMDB=off GOTOOLCHAIN=local
here=$(cd $(dirname $0) && pwd); repo=${1:-/repo}
ov=$(mktemp); echo "{\"Replace\":{\"$repo/scanner/zz_f21_test.go\":\"$here/zz_f21_test.go\"}}" > $ov
cd $repo && go test -overlay $ov -vet=off -timeout 120s -count=1 -run TestF21ScannerDefaultMatcher ./scanner/; rc=$?
rm -f $ov; exit $rc

package ctpolicy

import (
	"sync"
	"testing"
)

// F22: GetSubmissionSession copies group.LogWeights before it takes the read lock, while
// SetLogWeights writes that map under the write lock: a submission that starts while weights are
// being changed iterates a map that is being written (run with -race; without the detector the
// runtime may abort with "concurrent map iteration and map write").
func TestF22WeightsReadOutsideTheLock(t *testing.T) {
	group := &LogGroupInfo{
		Name:          "g",
		LogURLs:       map[string]bool{"a": true, "b": true, "c": true},
		MinInclusions: 1,
		IsBase:        true,
		LogWeights:    map[string]float32{"a": 1, "b": 1, "c": 1},
	}
	var wg sync.WaitGroup
	wg.Add(2)
	go func() {
		defer wg.Done()
		for i := 0; i < 2000; i++ {
			_ = group.SetLogWeights(map[string]float32{"a": float32(i%3 + 1), "b": 1, "c": 2})
		}
	}()
	go func() {
		defer wg.Done()
		for i := 0; i < 2000; i++ {
			_ = group.GetSubmissionSession()
		}
	}()
	wg.Wait()
}

#!/bin/bash
# Replays F22 on the real code through an overlay (nothing is written to /repo), under the race detector.
# exit 1 = the defect is present (DATA RACE between GetSubmissionSession and SetLogWeights).
export GOFLAGS=-mod=mod GOPROXY=off GOSUMDB=off GOTOOLCHAIN=local
here=$(cd $(dirname $0) && pwd); repo=${1:-/repo}
ov=$(mktemp); echo "{\"Replace\":{\"$repo/ctpolicy/zz_f22_test.go\":\"$here/zz_f22_test.go\"}}" > $ov
cd $repo && go test -race -overlay $ov -vet=off -timeout 300s -count=1 -run TestF22WeightsReadOutsideTheLock ./ctpolicy/; rc=$?
rm -f $ov; exit $rc

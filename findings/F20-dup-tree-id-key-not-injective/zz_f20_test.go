package ctfe

import (
	"strings"
	"testing"

	"github.com/google/certificate-transparency-go/trillian/ctfe/configpb"
	"github.com/google/trillian/crypto/keyspb"
	"google.golang.org/protobuf/types/known/anypb"
)

// TestF20DupTreeIDKey: tree IDs only have to be unique per backend. Two backends
// whose names differ by a trailing digit ("be" and "be1") hosting trees 123
// and 23 respectively are distinct (backend, tree ID) pairs, so the
// configuration is well-formed and must be accepted.
func TestF20DupTreeIDKey(t *testing.T) {
	privKey, err := anypb.New(&keyspb.PEMKeyFile{Path: "../testdata/ct-http-server.privkey.pem", Password: "dirk"})
	if err != nil {
		t.Fatalf("anypb.New: %v", err)
	}

	backends := &configpb.LogBackendSet{
		Backend: []*configpb.LogBackend{
			{Name: "a", BackendSpec: "trillian-a:8090"},
			{Name: "a-", BackendSpec: "trillian-b:8090"},
		},
	}

	// Well-formed: (be,123) and (be1,23) are different trees on different backends.
	ok := &configpb.LogMultiConfig{
		Backends: backends,
		LogConfigs: &configpb.LogConfigSet{
			Config: []*configpb.LogConfig{
				{LogId: -5, Prefix: "alpha", PrivateKey: privKey, LogBackendName: "a"},
				{LogId: 5, Prefix: "beta", PrivateKey: privKey, LogBackendName: "a-"},
			},
		},
	}
	lbm, err := ValidateLogMultiConfig(ok)
	if err != nil {
		t.Errorf("ValidateLogMultiConfig(well-formed config, trees (a,-5) and (a-,5)) = %v, want nil", err)
	} else if len(lbm) != 2 {
		t.Errorf("ValidateLogMultiConfig() returned %d backends, want 2", len(lbm))
	}

	// Control: a genuine duplicate on the same backend is still rejected.
	dup := &configpb.LogMultiConfig{
		Backends: backends,
		LogConfigs: &configpb.LogConfigSet{
			Config: []*configpb.LogConfig{
				{LogId: 123, Prefix: "alpha", PrivateKey: privKey, LogBackendName: "a"},
				{LogId: 123, Prefix: "beta", PrivateKey: privKey, LogBackendName: "a"},
			},
		},
	}
	if _, err := ValidateLogMultiConfig(dup); err == nil || !strings.Contains(err.Error(), "dup tree id") {
		t.Errorf("ValidateLogMultiConfig(dup tree on same backend) = %v, want 'dup tree id' error", err)
	}
}

#!/bin/bash
# Replays F20 on the real code through an overlay (nothing is written to /repo).
# exit 1 = the defect is present (a configuration with unique (backend, tree id) pairs is rejected as a duplicate).
export GOFLAGS=-mod=mod GOPROXY=off GOSUMDB=off GOTOOLCHAIN=local
here=$(cd $(dirname $0) && pwd); repo=${1:-/repo}
ov=$(mktemp); echo "{\"Replace\":{\"$repo/trillian/ctfe/zz_f20_test.go\":\"$here/zz_f20_test.go\"}}" > $ov
cd $repo && go test -overlay $ov -vet=off -timeout 120s -count=1 -run TestF20DupTreeIDKey ./trillian/ctfe/; rc=$?
rm -f $ov; exit $rc

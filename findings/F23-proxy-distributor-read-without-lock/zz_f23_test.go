package submission

import (
	"context"
	"sync"
	"testing"
	"time"

	"github.com/google/certificate-transparency-go/loglist3"
)

// F23: Proxy.dist is documented as guarded by distMu and restartDistributor (run on every log-list
// update) writes it under that lock, but AddChain / AddPreChain read it without the lock: a
// submission concurrent with a log-list refresh is a data race on the distributor pointer.
func TestF23ProxyDistributorReadWithoutLock(t *testing.T) {
	builder := func(*loglist3.LogList) (*Distributor, error) {
		return &Distributor{rootCompatibilityCheckDisabled: true}, nil
	}
	p := NewProxy(nil, builder, nil)
	p.rootsRefreshInterval = time.Hour
	ctx, cancel := context.WithCancel(context.Background())
	defer cancel()
	if err := p.restartDistributor(ctx, &loglist3.LogList{}); err != nil {
		t.Fatal(err)
	}
	var wg sync.WaitGroup
	wg.Add(2)
	go func() {
		defer wg.Done()
		for i := 0; i < 200; i++ {
			_ = p.restartDistributor(ctx, &loglist3.LogList{})
		}
	}()
	go func() {
		defer wg.Done()
		for i := 0; i < 200; i++ {
			_, _ = p.AddChain(ctx, nil, false)
			_, _ = p.AddPreChain(ctx, nil, false)
		}
	}()
	wg.Wait()
}
